//go:build verif

// verif:pkg reader/service
package service

import "github.com/metrico/qryn/zzverif/vrt"

// The stored tree rows of one profile: a fixed shape with symbolic weights that satisfy the writer's
// conservation invariant (total = self + children), which VH_C16_conserve establishes for the writer.
//
//	root(0) -> A(1) -> D(4)
//	                -> C(3) -> E(5)
//	        -> B(2)
type vmNode struct {
	parent, id uint64
	self       int64
	total      int64
	present    bool
}

func vmProfile(tag string, allowMissing bool) []vmNode {
	v := func() int64 {
		x := vrt.Int64(tag + "-self")
		vrt.Assume(x >= 0)
		vrt.Assume(x < 1<<30)
		return x
	}
	hasB := true
	if allowMissing {
		hasB = vrt.Bool(tag + "-has-B")
	}
	e := vmNode{parent: 3, id: 5, present: true}
	e.self = v()
	e.total = e.self
	c := vmNode{parent: 1, id: 3, self: v(), present: true}
	c.total = c.self + e.total
	d := vmNode{parent: 1, id: 4, self: v(), present: true}
	d.total = d.self
	a := vmNode{parent: 0, id: 1, self: v(), present: true}
	a.total = a.self + c.total + d.total
	b := vmNode{parent: 0, id: 2, self: v(), present: hasB}
	b.total = b.self
	return []vmNode{a, b, d, c, e}
}

func vmRows(p []vmNode, order int) [][]any {
	var rows [][]any
	idx := []int{0, 1, 2, 3, 4}
	if order == 1 {
		idx = []int{4, 3, 2, 1, 0}
	} else if order == 2 {
		idx = []int{1, 0, 2, 3, 4} // the leaf root first, and the leaf child before the child with children
	}
	for _, i := range idx {
		n := p[i]
		if n.present {
			rows = append(rows, []any{n.parent, n.id + 100, n.id, n.self, n.total})
		}
	}
	return rows
}

// VH_C16_merge_bfs_arith: merging the stored trees of two profiles in any row order and either profile order
// gives per-node sums, and in the flame graph built from the merged tree every bar lies inside its parent's
// span and siblings do not overlap.
func VH_C16_merge_bfs_arith() {
	vrt.Unwind(300)
	p1 := vmProfile("p1", false)
	p2 := vmProfile("p2", true)
	o1 := vrt.Choice("row-order-1", 3)
	o2 := vrt.Choice("row-order-2", 2)
	t := NewTree()
	t.SampleTypes = []string{"cpu:ns"}
	rows1, rows2 := vmRows(p1, o1), vmRows(p2, o2)
	fns := [][]any{{uint64(101), "A"}, {uint64(102), "B"}, {uint64(103), "C"}, {uint64(104), "D"}, {uint64(105), "E"}}
	if vrt.Bool("second-profile-first") {
		t.MergeTrie(rows2, fns, "cpu:ns")
		t.MergeTrie(rows1, fns, "cpu:ns")
	} else {
		t.MergeTrie(rows1, fns, "cpu:ns")
		t.MergeTrie(rows2, fns, "cpu:ns")
	}
	// per-node sums
	for i := range p1 {
		if !p1[i].present {
			continue
		}
		wantSelf, wantTotal := p1[i].self, p1[i].total
		if p2[i].present {
			wantSelf += p2[i].self
			wantTotal += p2[i].total
		}
		found := false
		for _, n := range t.Nodes[p1[i].parent] {
			if n.NodeID == p1[i].id {
				vrt.Assert(!found, "node-appears-once")
				found = true
				vrt.Assert(n.Self[0] == wantSelf, "merged-self-is-the-sum")
				vrt.Assert(n.Total[0] == wantTotal, "merged-total-is-the-sum")
			}
		}
		vrt.Assert(found, "node-present-after-merge")
	}
	tot := t.Total()
	vrt.Assert(tot[0] == p1[0].total+p2[0].total+p1[1].total+vmIf(p2[1].present, p2[1].total), "tree-total-is-sum-of-root-totals")

	// flame graph nesting: every bar lies inside the span of its own parent's bar, siblings do not overlap
	levels := t.BFS("cpu:ns")
	vrt.Assert(len(levels) >= 2, "levels-present")
	type bar struct {
		x, w int64
		seen bool
	}
	parentOf := map[string]string{"A": "total", "B": "total", "C": "A", "D": "A", "E": "C"}
	spans := map[string]*bar{}
	for li, lvl := range levels {
		vrt.Assert(len(lvl.Values)%4 == 0, "level-values-in-quadruples")
		var x, lastEnd int64
		for k := 0; k+3 < len(lvl.Values); k += 4 {
			x += lvl.Values[k]
			b := &bar{x, lvl.Values[k+1], true}
			vrt.Assert(lvl.Values[k+2] <= lvl.Values[k+1], "self-not-larger-than-total")
			vrt.Assert(b.x >= lastEnd, "bars-of-a-level-do-not-overlap")
			name := t.Names[lvl.Values[k+3]]
			if li == 0 {
				name = "total"
			} else {
				p := spans[parentOf[name]]
				vrt.Assert(p != nil && p.seen, "parent-bar-drawn-on-an-earlier-level")
				vrt.Assert(b.x >= p.x, "bar-starts-inside-its-parents-span")
				vrt.Assert(b.x+b.w <= p.x+p.w, "bar-ends-inside-its-parents-span")
			}
			spans[name] = b
			x += b.w
			lastEnd = x
		}
	}
	for _, n := range []string{"A", "C", "D", "E"} {
		vrt.Assert(spans[n] != nil, "every-node-has-a-bar")
	}
	vrt.Reach("end")
}

func vmIf(c bool, v int64) int64 {
	if c {
		return v
	}
	return 0
}
