//go:build verif

// verif:pkg writer/utils/unmarshal
package unmarshal

import (
	pprof_proto "github.com/google/pprof/profile"
	"github.com/metrico/qryn/zzverif/vrt"
)

// vcProfile builds a pprof profile (the pprof parser itself is environment): nSamples stacks whose frames
// are picked from a small set of functions (so recursion and shared prefixes occur), with symbolic values.
func vcProfile(maxSamples, maxDepth, nFuncs, nTypes int) (*pprof_proto.Profile, [][]int64) {
	p := &pprof_proto.Profile{}
	for t := 0; t < nTypes; t++ {
		p.SampleType = append(p.SampleType, &pprof_proto.ValueType{Type: "t" + string(rune('0'+t)), Unit: "count"})
	}
	var fns []*pprof_proto.Function
	for f := 0; f < nFuncs; f++ {
		fns = append(fns, &pprof_proto.Function{ID: uint64(f + 1), Name: "fn" + string(rune('A'+f))})
	}
	n := vrt.Len("samples", 1, maxSamples)
	var values [][]int64
	for s := 0; s < n; s++ {
		depth := vrt.Len("stack-depth", 0, maxDepth)
		smp := &pprof_proto.Sample{}
		for d := 0; d < depth; d++ {
			loc := &pprof_proto.Location{}
			k := vrt.Choice("frame-function", nFuncs+1)
			if k < nFuncs {
				loc.Line = []pprof_proto.Line{{Function: fns[k]}}
			} // else: a location without line info ("n/a")
			smp.Location = append(smp.Location, loc)
		}
		vals := make([]int64, nTypes)
		for t := range vals {
			vals[t] = vrt.Int64("sample-value")
			vrt.Assume(vals[t] >= 0)
			vrt.Assume(vals[t] < 1<<40)
		}
		smp.Value = vals
		p.Sample = append(p.Sample, smp)
		values = append(values, vals)
	}
	return p, values
}

// VH_C16_conserve: the call tree the writer stores for a profile conserves weight: for every node and
// sample type total == self + sum(children totals); the root totals add up to the sum of the sample values.
func VH_C16_conserve() {
	vrt.Unwind(300)
	maxSamples, maxDepth, nFuncs := 2, 3, 2
	if vrt.Thorough() {
		maxSamples, maxDepth, nFuncs = 3, 3, 2
	}
	nTypes := 1 + vrt.Choice("extra-sample-type", 2)
	p, values := vcProfile(maxSamples, maxDepth, nFuncs, nTypes)
	_, tree := postProcessProf(p)
	for t := 0; t < nTypes; t++ {
		var want int64
		for s, smp := range p.Sample {
			if len(smp.Location) > 0 {
				want += values[s][t]
			}
		}
		var roots int64
		for _, nd := range tree {
			if nd.parentId == 0 {
				roots += nd.values[t].total
			}
			var kids int64
			for _, c := range tree {
				if c.parentId == nd.nodeId {
					kids += c.values[t].total
				}
			}
			vrt.Assert(nd.values[t].total == nd.values[t].self+kids, "node-total-equals-self-plus-children")
			vrt.Assert(nd.values[t].self >= 0, "self-not-negative")
		}
		vrt.Assert(roots == want, "root-totals-equal-sum-of-sample-values")
	}
	vrt.Reach("end")
}

// VH_C16_deep_stack: one sample whose stack is 510..513 or 700 frames deep (the writer caps the tree level
// field at 511), two sample types with symbolic values: weight is still conserved - the sum of self values over
// all nodes equals the sample value, every node's total equals self plus children, for both types.
func VH_C16_deep_stack() {
	vrt.Unwind(300)
	vrt.ConcreteUnwind(2000000)
	vrt.Steps(80000000)
	depth := []int{510, 511, 512, 513, 700}[vrt.Choice("stack-depth", 5)]
	p := &pprof_proto.Profile{SampleType: []*pprof_proto.ValueType{{Type: "t0", Unit: "count"}, {Type: "t1", Unit: "count"}}}
	smp := &pprof_proto.Sample{}
	for d := 0; d < depth; d++ {
		fn := &pprof_proto.Function{ID: uint64(d + 1), Name: "f" + string(rune('a'+d%26)) + string(rune('a'+(d/26)%26))}
		smp.Location = append(smp.Location, &pprof_proto.Location{Line: []pprof_proto.Line{{Function: fn}}})
	}
	v0, v1 := vrt.Int64("value-0"), vrt.Int64("value-1")
	for _, v := range []int64{v0, v1} {
		vrt.Assume(v >= 0)
		vrt.Assume(v < 1<<40)
	}
	smp.Value = []int64{v0, v1}
	p.Sample = []*pprof_proto.Sample{smp}
	_, tree := postProcessProf(p)
	for t, want := range []int64{v0, v1} {
		var selfSum, roots int64
		for _, nd := range tree {
			selfSum += nd.values[t].self
			if nd.parentId == 0 {
				roots += nd.values[t].total
			}
		}
		vrt.Assert(selfSum == want, "self-values-add-up-to-the-sample-value")
		vrt.Assert(roots == want, "root-totals-equal-the-sample-value")
	}
	vrt.Reach("end")
}
