//go:build verif

// verif:pkg writer/utils/unmarshal
package unmarshal

import (
	"bytes"

	"github.com/metrico/qryn/zzverif/vrt"
)

// vzSpanJSON renders span k: the optional fields are present or absent nondeterministically, the
// duration/timestamp digits and one tag value byte are symbolic; key order is one of two.
type vzSpan struct {
	id       string
	hasDur   bool
	dur      string
	ts       string
	tag      string
	name     string
	keyOrder int
}

func vzMake(k int) (vzSpan, string) {
	s := vzSpan{id: "000000000000000" + string(rune('1'+k)), name: "op" + string(rune('a'+k))}
	s.hasDur = vrt.Bool("duration-present")
	d := vrt.Byte("duration-digit")
	vrt.Assume(d >= '1')
	vrt.Assume(d <= '9')
	s.dur = string([]byte{d}) + "00"
	t := vrt.Byte("timestamp-digit")
	vrt.Assume(t >= '1')
	vrt.Assume(t <= '9')
	s.ts = "17000000000000" + string([]byte{t})
	tv := vrt.Byte("tag-value")
	vrt.Assume(tv >= 'a')
	vrt.Assume(tv <= 'z')
	s.tag = string([]byte{tv})
	s.keyOrder = vrt.Choice("key-order", 2)
	ids := `"traceId":"0000000000000000000000000000aa0` + string(rune('1'+k)) + `","id":"` + s.id + `"`
	rest := `"name":"` + s.name + `","timestamp":` + s.ts
	if s.hasDur {
		rest += `,"duration":` + s.dur
	}
	tags := `"localEndpoint":{"serviceName":"svc` + string(rune('a'+k)) + `"},"tags":{"t` + string(rune('a'+k)) + `":"` + s.tag + `"}`
	if s.keyOrder == 0 {
		return s, "{" + ids + "," + rest + "," + tags + "}"
	}
	return s, "{" + tags + "," + rest + "," + ids + "}"
}

// VH_C06_zipkin_array: a Zipkin JSON array of 1-2 spans decoded by the real decoder (go-faster/jx executed
// from SSA): one row per span with that span's own ids, start, duration (0 when absent), name and service
// name, and tag rows that carry nothing of the other span.
func VH_C06_zipkin_array() {
	vrt.Unwind(2000)
	vrt.ConcreteUnwind(200000)
	n := vrt.Len("spans", 1, 2)
	var spans []vzSpan
	body := "["
	for k := 0; k < n; k++ {
		s, js := vzMake(k)
		spans = append(spans, s)
		if k > 0 {
			body += ","
		}
		body += js
	}
	body += "]"
	pd := &parserDoer{ctx: &ParserCtx{bodyReader: bytes.NewReader([]byte(body))}, payloadType: 1}
	pd.resetSpans()
	dec := &zipkinDecoderV2{ctx: pd.ctx}
	dec.SetOnEntry(pd.onSpan)
	err := dec.Decode()
	vrt.Assert(err == nil, "well-formed-body-accepted")
	vzCheck(pd, spans, n)
	vrt.Reach("end")
}

// VH_C06_zipkin_ndjson: the same spans, newline-delimited framing.
func VH_C06_zipkin_ndjson() {
	vrt.Unwind(2000)
	vrt.ConcreteUnwind(200000)
	n := vrt.Len("spans", 1, 2)
	var spans []vzSpan
	body := ""
	for k := 0; k < n; k++ {
		s, js := vzMake(k)
		spans = append(spans, s)
		body += js + "\n"
	}
	pd := &parserDoer{ctx: &ParserCtx{bodyReader: bytes.NewReader([]byte(body))}, payloadType: 1}
	pd.resetSpans()
	dec := &zipkinNDDecoderV2{&zipkinDecoderV2{ctx: pd.ctx}}
	dec.SetOnEntry(pd.onSpan)
	err := dec.Decode()
	vrt.Assert(err == nil, "well-formed-body-accepted")
	vzCheck(pd, spans, n)
	vrt.Reach("end")
}

// VH_C06_zipkin_ndjson_large: three newline-delimited spans of ~2.1 kB each (a body larger than the line
// scanner's 4 kB buffer, so the buffer is shifted and refilled between lines): every row keeps its own
// line verbatim as payload, and its own ids, times and tag value.
func VH_C06_zipkin_ndjson_large() {
	vrt.Unwind(8000)
	vrt.ConcreteUnwind(2000000)
	vrt.Steps(40000000)
	pad := make([]byte, 2000)
	for i := range pad {
		pad[i] = 'p'
	}
	n := 3
	var lines []string
	var tags []byte
	body := ""
	for k := 0; k < n; k++ {
		tv := vrt.Byte("tag-value")
		vrt.Assume(tv >= 'a')
		vrt.Assume(tv <= 'z')
		tags = append(tags, tv)
		js := `{"traceId":"0000000000000000000000000000aa0` + string(rune('1'+k)) + `","id":"000000000000000` + string(rune('1'+k)) +
			`","name":"op","timestamp":170000000000000` + string(rune('1'+k)) + `,"duration":` + string(rune('1'+k)) + `00` +
			`,"tags":{"pad":"` + string(pad) + `","t":"` + string([]byte{tv}) + `"}}`
		lines = append(lines, js)
		body += js + "\n"
	}
	pd := &parserDoer{ctx: &ParserCtx{bodyReader: bytes.NewReader([]byte(body))}, payloadType: 1}
	pd.resetSpans()
	dec := &zipkinNDDecoderV2{&zipkinDecoderV2{ctx: pd.ctx}}
	dec.SetOnEntry(pd.onSpan)
	err := dec.Decode()
	vrt.Assert(err == nil, "well-formed-body-accepted")
	vrt.Assert(len(pd.spans.MSpanId) == n, "one-trace-row-per-span")
	for k := 0; k < n; k++ {
		vrt.Assert(pd.spans.MSpanId[k][7] == byte(1+k), "row-span-id")
		vrt.Assert(pd.spans.MTimestampNs[k] == (int64(1700000000000000)+int64(k+1))*1000, "row-start-time")
		vrt.Assert(pd.spans.MDurationNs[k] == int64(k+1)*100*1000, "row-duration")
		vrt.Assert(string(pd.spans.MPayload[k]) == lines[k], "row-payload-is-the-spans-own-line-verbatim")
	}
	cnt := 0
	for i := range pd.attrs.MKey {
		if pd.attrs.MKey[i] == "t" {
			k := int(pd.attrs.MSpanId[i][7]) - 1
			vrt.Assert(k >= 0 && k < n, "tag-row-belongs-to-a-span")
			vrt.Assert(pd.attrs.MVal[i] == string([]byte{tags[k]}), "tag-row-value")
			cnt++
		}
	}
	vrt.Assert(cnt == n, "one-tag-row-per-span-tag")
	vrt.Reach("end")
}

func vzCheck(pd *parserDoer, spans []vzSpan, n int) {
	vrt.Assert(len(pd.spans.MSpanId) == n, "one-trace-row-per-span")
	for k, s := range spans {
		vrt.Assert(len(pd.spans.MSpanId[k]) == 8 && pd.spans.MSpanId[k][7] == byte(1+k), "row-span-id")
		vrt.Assert(len(pd.spans.MTraceId[k]) == 16 && pd.spans.MTraceId[k][15] == byte(1+k) && pd.spans.MTraceId[k][14] == 0xaa, "row-trace-id")
		wantTs := (int64(170000000000000) + int64(s.ts[14]-48)) * 1000
		vrt.Assert(pd.spans.MTimestampNs[k] == wantTs, "row-start-time")
		wantDur := int64(0)
		if s.hasDur {
			wantDur = int64(s.dur[0]-'0') * 100 * 1000
		}
		vrt.Assert(pd.spans.MDurationNs[k] == wantDur, "row-duration-is-the-spans-own")
		vrt.Assert(pd.spans.MName[k] == s.name, "row-name")
		vrt.Assert(pd.spans.MServiceName[k] == "svc"+string(rune('a'+k)), "row-service-name")
		vrt.Assert(len(pd.spans.MPayload[k]) > 0, "row-payload-present")
	}
	for i := range pd.attrs.MKey {
		k := int(pd.attrs.MSpanId[i][7]) - 1
		vrt.Assert(k >= 0 && k < n, "tag-row-belongs-to-a-span")
		other := 1 - k
		if n == 2 {
			vrt.Assert(pd.attrs.MKey[i] != "t"+string(rune('a'+other)), "tag-row-does-not-carry-another-spans-tag")
		}
		if pd.attrs.MKey[i] == "t"+string(rune('a'+k)) {
			vrt.Assert(pd.attrs.MVal[i] == spans[k].tag, "tag-row-value")
		}
		vrt.Assert(pd.attrs.MDurationNs[i] == pd.spans.MDurationNs[k], "tag-row-duration-of-its-span")
	}
}
