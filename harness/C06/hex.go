//go:build verif

// verif:pkg writer/utils/unmarshal
package unmarshal

import "github.com/metrico/qryn/zzverif/vrt"

func vxNibble(c byte) int {
	switch {
	case c >= '0' && c <= '9':
		return int(c - '0')
	case c >= 'a' && c <= 'f':
		return int(c-'a') + 10
	case c >= 'A' && c <= 'F':
		return int(c-'A') + 10
	}
	return -1
}

// VH_C06_zipkin_hex: Zipkin ids arrive as hex text of any length. For a trace id (32 hex chars) or span
// id (16) the decoder must produce exactly 16 / 8 bytes: shorter text is left-padded with zeros (the
// numeric value is kept), longer text keeps its leading digits, non-hex text is rejected.
func VH_C06_zipkin_hex() {
	vrt.Unwind(200)
	leng := 16
	if vrt.Bool("trace-id") {
		leng = 32
	}
	maxLen := 6
	if vrt.Thorough() {
		maxLen = 10
	}
	// lengths near both ends: 0..maxLen and leng-2..leng+2
	n := vrt.Len("hex-length", 0, maxLen)
	if vrt.Bool("near-full-length") {
		n = leng - 2 + vrt.Len("offset", 0, 4)
	}
	// the text: fixed hex digits with up to three symbolic characters (first, last, one in the middle) -
	// every character symbolic makes 3^n paths (digit / letter / not hex)
	hex := make([]byte, n)
	for i := range hex {
		hex[i] = "0123456789abcdefABCDEF"[(i*7)%22]
	}
	if n > 0 {
		hex[0] = vrt.Byte("hex-first")
		hex[n-1] = vrt.Byte("hex-last")
		hex[n/2] = vrt.Byte("hex-middle")
	}
	z := &zipkinDecoderV2{}
	res, err := z.decodeHexStr(hex, leng)
	if n == 0 {
		vrt.Assert(err != nil, "empty-id-rejected")
		vrt.Reach("rejected")
		return
	}
	valid := true
	for i := 0; i < n && i < leng; i++ {
		if vxNibble(hex[i]) < 0 {
			valid = false
		}
	}
	if !valid {
		vrt.Assert(err != nil, "non-hex-text-rejected")
		vrt.Reach("rejected")
		return
	}
	vrt.Assert(err == nil, "hex-text-accepted")
	vrt.Assert(len(res) == leng/2, "id-has-the-fixed-column-width")
	// reference: digit d of the padded text (position p from the left of `leng` digits)
	pad := leng - n
	if pad < 0 {
		pad = 0
	}
	for b := 0; b < leng/2; b++ {
		hi, lo := 0, 0
		if 2*b >= pad {
			hi = vxNibble(hex[2*b-pad])
		}
		if 2*b+1 >= pad {
			lo = vxNibble(hex[2*b+1-pad])
		}
		vrt.Assert(int(res[b]) == hi*16+lo, "id-byte-is-the-padded-hex-digit-pair")
	}
	vrt.Reach("accepted")
}
