//go:build verif

// verif:pkg writer/utils/unmarshal
package unmarshal

import (
	"bytes"

	"github.com/metrico/qryn/reader/service"
	runmarshal "github.com/metrico/qryn/reader/utils/unmarshal"
	"github.com/metrico/qryn/zzverif/vrt"
	"github.com/metrico/qryn/zzverif/vsql"
)

// VH_C06_zipkin_roundtrip: writer and reader together. A Zipkin span (symbolic name / tag / id / time
// bytes, optional parent, duration and endpoints) goes through the real decoder and onSpan; the produced
// trace row is handed, as the database row the trace query selects, to the real read path
// (TempoService.OutputQuery -> parseZipkinJSON over valyala/fastjson executed from SSA). The span that
// comes back has the pushed ids, name, start and end, parent, tag and service name.
func VH_C06_zipkin_roundtrip() {
	vrt.Unwind(3000)
	vrt.ConcreteUnwind(400000)
	vrt.CheckLeaks()
	hexd := func(label string) byte {
		c := vrt.Byte(label)
		vrt.Assume((c >= '0' && c <= '9') || (c >= 'a' && c <= 'f'))
		return c
	}
	nib := func(c byte) byte {
		if c >= 'a' {
			return c - 'a' + 10
		}
		return c - '0'
	}
	th, sh := hexd("trace-id-digit"), hexd("span-id-digit")
	nm := vrt.Byte("name-byte")
	vrt.Assume(nm >= 0x20 && nm < 0x7f && nm != '"' && nm != '\\')
	tv := vrt.Byte("tag-byte")
	vrt.Assume(tv >= 0x20 && tv < 0x7f && tv != '"' && tv != '\\')
	td := vrt.Byte("timestamp-digit")
	vrt.Assume(td >= '0' && td <= '9')
	hasParent, hasDur := vrt.Bool("parent-present"), vrt.Bool("duration-present")
	endpoints := vrt.Choice("endpoints", 3) // none, local, local+remote

	body := `[{"traceId":"0000000000000000000000000000aa0` + string([]byte{th}) + `","id":"000000000000bb0` + string([]byte{sh}) + `"`
	if hasParent {
		body += `,"parentId":"000000000000cc01"`
	}
	body += `,"name":"n` + string([]byte{nm}) + `","timestamp":170000000000000` + string([]byte{td})
	if hasDur {
		body += `,"duration":250`
	}
	if endpoints == 2 && vrt.Bool("remote-endpoint-first") {
		body += `,"remoteEndpoint":{"serviceName":"back"},"localEndpoint":{"serviceName":"front"}`
	} else {
		if endpoints >= 1 {
			body += `,"localEndpoint":{"serviceName":"front"}`
		}
		if endpoints == 2 {
			body += `,"remoteEndpoint":{"serviceName":"back"}`
		}
	}
	body += `,"tags":{"k":"v` + string([]byte{tv}) + `"}}]`

	// writer
	pd := &parserDoer{ctx: &ParserCtx{bodyReader: bytes.NewReader([]byte(body))}, payloadType: 1}
	pd.resetSpans()
	dec := &zipkinDecoderV2{ctx: pd.ctx}
	dec.SetOnEntry(pd.onSpan)
	err := dec.Decode()
	vrt.Assert(err == nil, "well-formed-body-accepted")
	vrt.Assert(len(pd.spans.MSpanId) == 1, "one-trace-row")
	wantStart := (int64(1700000000000000) + int64(td-'0')) * 1000
	wantDur := int64(0)
	if hasDur {
		wantDur = 250000
	}
	vrt.Assert(pd.spans.MTimestampNs[0] == wantStart, "row-start-time")
	vrt.Assert(pd.spans.MDurationNs[0] == wantDur, "row-duration")
	wantService := ""
	if endpoints >= 1 {
		wantService = "front" // the span's own (local) endpoint
	}
	vrt.Assert(pd.spans.MServiceName[0] == wantService, "row-service-name-is-the-local-endpoints")

	// the database row the trace query selects: trace_id, span_id, parent_id, timestamp_ns, duration_ns,
	// payload_type, payload
	rows := vsql.Rows([]string{"trace_id", "span_id", "parent_id", "timestamp_ns", "duration_ns", "payload_type", "payload"},
		[][]any{{string(pd.spans.MTraceId[0]), string(pd.spans.MSpanId[0]), pd.spans.MParentId[0], pd.spans.MTimestampNs[0],
			pd.spans.MDurationNs[0], pd.spans.MPayloadType[0], string(pd.spans.MPayload[0])}})

	// reader
	out, err := (&service.TempoService{}).OutputQuery(false, rows)
	vrt.Assert(err == nil, "read-path-started")
	n := 0
	for sr := range out {
		n++
		sp := sr.Span
		vrt.Assert(sp != nil, "span-decoded")
		vrt.Assert(len(sp.TraceId) == 16 && sp.TraceId[14] == 0xaa && sp.TraceId[15] == nib(th), "trace-id-roundtrips")
		vrt.Assert(len(sp.SpanId) == 8 && sp.SpanId[6] == 0xbb && sp.SpanId[7] == nib(sh), "span-id-roundtrips")
		vrt.Assert(sp.Name == "n"+string([]byte{nm}), "name-roundtrips")
		vrt.Assert(sp.StartTimeUnixNano == uint64(wantStart), "start-roundtrips")
		vrt.Assert(sp.EndTimeUnixNano == uint64(wantStart+wantDur), "end-is-start-plus-duration")
		if hasParent {
			vrt.Assert(len(sp.ParentSpanId) == 8 && sp.ParentSpanId[6] == 0xcc && sp.ParentSpanId[7] == 1, "parent-roundtrips")
		} else {
			vrt.Assert(len(sp.ParentSpanId) == 0, "no-parent-invented")
		}
		tag, svc := false, false
		for _, kv := range sp.Attributes {
			if kv.Key == "k" {
				vrt.Assert(kv.Value.GetStringValue() == "v"+string([]byte{tv}), "tag-value-roundtrips")
				tag = true
			}
			if kv.Key == "service.name" {
				vrt.Assert(kv.Value.GetStringValue() == wantService, "service-name-attribute")
				svc = true
			}
		}
		vrt.Assert(tag, "tag-present-after-read")
		vrt.Assert(svc, "service-name-attribute-present")
		vrt.Assert(sr.ServiceName == wantService, "service-name-roundtrips")
		// the JSON shape the trace endpoints serve
		js := runmarshal.SpanToJSONSpan(sp)
		vrt.Assert(js.TraceId == "0000000000000000000000000000aa0"+string([]byte{th}) && js.TraceID == js.TraceId, "served-trace-id-is-the-pushed-hex-id")
		vrt.Assert(js.SpanId == "000000000000bb0"+string([]byte{sh}) && js.SpanID == js.SpanId, "served-span-id-is-the-pushed-hex-id")
		vrt.Assert(js.Name == sp.Name && js.StartTimeUnixNano == sp.StartTimeUnixNano && js.EndTimeUnixNano == sp.EndTimeUnixNano, "served-name-and-times")
		if hasParent {
			vrt.Assert(js.ParentSpanId == "000000000000cc01", "served-parent-is-the-pushed-hex-id")
		} else {
			vrt.Assert(js.ParentSpanId == "", "served-span-has-no-parent")
		}
		vrt.Assert(js.ServiceName == wantService, "served-service-name")
	}
	vrt.Assert(n == 1, "exactly-one-span-read-back")
	vrt.Reach("end")
}
