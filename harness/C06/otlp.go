//go:build verif

// verif:pkg writer/utils/unmarshal
package unmarshal

import (
	"github.com/metrico/qryn/zzverif/vrt"
	v11 "go.opentelemetry.io/proto/otlp/common/v1"
	resource "go.opentelemetry.io/proto/otlp/resource/v1"
	trace "go.opentelemetry.io/proto/otlp/trace/v1"
)

func vsStr(s string) *v11.AnyValue { return &v11.AnyValue{Value: &v11.AnyValue_StringValue{StringValue: s}} }

// vsSpan builds span k with symbolic ids/times/name and attributes of several kinds; returns the
// flattened attributes expected for it (besides the service-name attributes the decoder adds).
func vsSpan(k int) (*trace.Span, map[string]string) {
	tag := string(rune('a' + k))
	sp := &trace.Span{
		TraceId: vrt.Bytes("trace-id", 16), SpanId: vrt.Bytes("span-id", 8), ParentSpanId: vrt.Bytes("parent-id", 8),
		Name: "op-" + vrt.String("name", 1), StartTimeUnixNano: vrt.Uint64("start"), EndTimeUnixNano: vrt.Uint64("end"),
	}
	want := map[string]string{}
	sv := vrt.String("attr-string", 1)
	sp.Attributes = append(sp.Attributes, &v11.KeyValue{Key: "s" + tag, Value: vsStr(sv)})
	want["s"+tag] = sv
	switch vrt.Choice("extra-attribute-kind", 4) {
	case 1:
		sp.Attributes = append(sp.Attributes, &v11.KeyValue{Key: "b" + tag, Value: &v11.AnyValue{Value: &v11.AnyValue_BoolValue{BoolValue: true}}})
		want["b"+tag] = "true"
	case 2:
		nested := &v11.KeyValueList{Values: []*v11.KeyValue{{Key: "in", Value: vsStr("x" + tag)}}}
		sp.Attributes = append(sp.Attributes, &v11.KeyValue{Key: "m" + tag, Value: &v11.AnyValue{Value: &v11.AnyValue_KvlistValue{KvlistValue: nested}}})
		want["m"+tag+".in"] = "x" + tag
	case 3:
		// a map nested in a map, next to a top-level map whose flattened key would collide with the inner path
		inner := &v11.KeyValueList{Values: []*v11.KeyValue{{Key: "method", Value: vsStr("G" + tag)}}}
		outer := &v11.KeyValueList{Values: []*v11.KeyValue{{Key: "request", Value: &v11.AnyValue{Value: &v11.AnyValue_KvlistValue{KvlistValue: inner}}}}}
		top := &v11.KeyValueList{Values: []*v11.KeyValue{{Key: "method", Value: vsStr("T" + tag)}}}
		sp.Attributes = append(sp.Attributes,
			&v11.KeyValue{Key: "http" + tag, Value: &v11.AnyValue{Value: &v11.AnyValue_KvlistValue{KvlistValue: outer}}},
			&v11.KeyValue{Key: "request", Value: &v11.AnyValue{Value: &v11.AnyValue_KvlistValue{KvlistValue: top}}})
		want["http"+tag+".request.method"] = "G" + tag
		want["request.method"] = "T" + tag
	}
	return sp, want
}

// VH_C06_otlp: every OTLP span yields exactly one trace row with its own ids, start, duration, name and
// service name, and one tag row per flattened attribute carrying the same ids and times; nothing of span j
// appears in the rows of span k.
func VH_C06_otlp() {
	vrt.Unwind(300)
	n := vrt.Len("spans", 1, 2)
	var spans []*trace.Span
	var wants []map[string]string
	for k := 0; k < n; k++ {
		sp, w := vsSpan(k)
		spans = append(spans, sp)
		wants = append(wants, w)
	}
	svc := vrt.String("service-name", 1)
	rs := &trace.ResourceSpans{ScopeSpans: []*trace.ScopeSpans{{Spans: spans}}}
	if vrt.Bool("resource-present") {
		rs.Resource = &resource.Resource{Attributes: []*v11.KeyValue{{Key: "service.name", Value: vsStr(svc)}}}
	} else {
		svc = "OTLPResourceNoServiceName" // the documented default when no service name attribute exists
	}
	body := &trace.TracesData{ResourceSpans: []*trace.ResourceSpans{rs}}
	pd := &parserDoer{ctx: &ParserCtx{bodyObject: body}, payloadType: 2}
	pd.resetSpans()
	dec := &OTLPDecoder{ctx: pd.ctx}
	dec.SetOnEntry(pd.onSpan)
	err := dec.Decode()
	vrt.Assert(err == nil, "well-formed-spans-accepted")
	vrt.Assert(len(pd.spans.MTraceId) == n, "one-trace-row-per-span")
	vrt.Assert(len(pd.spans.MPayload) == n && len(pd.spans.MName) == n && len(pd.spans.MServiceName) == n, "trace-row-arrays-rectangular")
	for k, sp := range spans {
		vrt.Assert(string(pd.spans.MTraceId[k]) == string(sp.TraceId), "row-trace-id")
		vrt.Assert(string(pd.spans.MSpanId[k]) == string(sp.SpanId), "row-span-id")
		vrt.Assert(pd.spans.MParentId[k] == string(sp.ParentSpanId), "row-parent-id")
		vrt.Assert(pd.spans.MTimestampNs[k] == int64(sp.StartTimeUnixNano), "row-start-time")
		vrt.Assert(pd.spans.MDurationNs[k] == int64(sp.EndTimeUnixNano-sp.StartTimeUnixNano), "row-duration")
		vrt.Assert(pd.spans.MName[k] == sp.Name, "row-name")
		vrt.Assert(pd.spans.MServiceName[k] == svc, "row-service-name")
		vrt.Assert(pd.spans.MPayloadType[k] == 2, "row-payload-type-otlp")
		vrt.Assert(len(pd.spans.MPayload[k]) > 0, "row-payload-present")
	}
	// tag rows: for each span exactly its own flattened attributes (+ name, service.name, remoteService.name)
	for k, sp := range spans {
		found := 0
		for i := range pd.attrs.MKey {
			if string(pd.attrs.MSpanId[i]) != string(sp.SpanId) || string(pd.attrs.MTraceId[i]) != string(sp.TraceId) {
				continue
			}
			if n == 2 && string(spans[0].SpanId) == string(spans[1].SpanId) && string(spans[0].TraceId) == string(spans[1].TraceId) {
				continue // identical ids: rows cannot be attributed
			}
			vrt.Assert(pd.attrs.MTimestampNs[i] == int64(sp.StartTimeUnixNano), "tag-row-start-time-of-its-span")
			vrt.Assert(pd.attrs.MDurationNs[i] == int64(sp.EndTimeUnixNano-sp.StartTimeUnixNano), "tag-row-duration-of-its-span")
			key, val := pd.attrs.MKey[i], pd.attrs.MVal[i]
			if w, ok := wants[k][key]; ok {
				vrt.Assert(val == w, "tag-row-value-of-its-own-attribute")
				found++
				continue
			}
			other := false
			for j := range wants {
				if j != k {
					if _, ok := wants[j][key]; ok {
						other = true
					}
				}
			}
			vrt.Assert(!other, "tag-row-does-not-carry-another-spans-attribute")
		}
		if !(n == 2 && string(spans[0].SpanId) == string(spans[1].SpanId) && string(spans[0].TraceId) == string(spans[1].TraceId)) {
			vrt.Assert(found == len(wants[k]), "one-tag-row-per-flattened-attribute")
		}
	}
	vrt.Reach("end")
}
