//go:build verif

// verif:pkg reader/logql/logql_transpiler_v2/clickhouse_planner
package clickhouse_planner

import (
	sql "github.com/metrico/qryn/reader/utils/sql_select"
	"github.com/metrico/qryn/zzverif/vlib"
	"github.com/metrico/qryn/zzverif/vrt"
)

// vdEvalLambda evaluates the body of the mapFilter lambda "(k,v) -> <body>" the drop stage renders, for one
// label (k, v). Understood: comparisons  k = 'x', k != 'x', v = 'x', v != 'x',  (k, v) = ('x', 'y'),
// (k, v) != ('x', 'y')  (ClickHouse tuple comparison: equal iff all components are equal) joined by
// and / or (and binds tighter). Anything else: ok=false.
func vdEvalLambda(toks []vlib.SQLTok, k, v string) (res bool, ok bool) {
	i := 0
	// skip "(k,v) ->"
	for i < len(toks) && !(toks[i].Kind == 'P' && toks[i].Text == ">") {
		i++
	}
	i++
	val := func(name string) (string, bool) {
		switch name {
		case "k":
			return k, true
		case "v":
			return v, true
		}
		return "", false
	}
	readOp := func() (neq bool, ok bool) {
		if i < len(toks) && toks[i].Text == "!" && i+1 < len(toks) && toks[i+1].Text == "=" {
			i += 2
			return true, true
		}
		if i < len(toks) && toks[i].Text == "=" {
			i++
			if i < len(toks) && toks[i].Text == "=" {
				i++
			}
			return false, true
		}
		return false, false
	}
	atom := func() (bool, bool) {
		if i < len(toks) && toks[i].Text == "(" {
			// (a, b) op ('x', 'y')
			if i+4 >= len(toks) || toks[i+2].Text != "," || toks[i+4].Text != ")" {
				return false, false
			}
			a, ok1 := val(toks[i+1].Text)
			b, ok2 := val(toks[i+3].Text)
			i += 5
			neq, ok3 := readOp()
			if !ok1 || !ok2 || !ok3 || i+4 >= len(toks) || toks[i].Text != "(" || toks[i+1].Kind != 'S' || toks[i+2].Text != "," ||
				toks[i+3].Kind != 'S' || toks[i+4].Text != ")" {
				return false, false
			}
			eq := a == toks[i+1].Text && b == toks[i+3].Text
			i += 5
			return eq != neq, true
		}
		if i >= len(toks) || toks[i].Kind != 'I' {
			return false, false
		}
		a, ok1 := val(toks[i].Text)
		i++
		neq, ok2 := readOp()
		if !ok1 || !ok2 || i >= len(toks) || toks[i].Kind != 'S' {
			return false, false
		}
		eq := a == toks[i].Text
		i++
		return eq != neq, true
	}
	// or-of-ands
	result := false
	for {
		conj := true
		for {
			a, ok := atom()
			if !ok {
				return false, false
			}
			conj = conj && a
			if i < len(toks) && (toks[i].Text == "and" || toks[i].Text == "AND") {
				i++
				continue
			}
			break
		}
		result = result || conj
		if i < len(toks) && (toks[i].Text == "or" || toks[i].Text == "OR") {
			i++
			continue
		}
		break
	}
	return result, i == len(toks)
}

// VH_C07_drop_stage: the `| drop` stage renders a mapFilter lambda over the labels map. For a drop list of one
// or two parameters (a bare name, or name="value") and a label (k, v) with symbolic bytes, the lambda keeps the
// label iff no parameter names it (a parameter with a value only when the value matches too).
func VH_C07_drop_stage() {
	vrt.Unwind(600)
	names := []string{"lvl"}
	values := []string{""}
	if vrt.Bool("first-parameter-has-a-value") {
		values[0] = "dbg"
	}
	if vrt.Bool("two-parameters") {
		names = append(names, "env")
		if vrt.Bool("second-parameter-has-a-value") {
			values = append(values, "dev")
		} else {
			values = append(values, "")
		}
	}
	// the label under test: one of the named keys or another key; the value one of the parameter values or
	// symbolic text
	k := []string{"lvl", "env", "pod"}[vrt.Choice("label-name", 3)]
	var v string
	switch vrt.Choice("label-value", 3) {
	case 0:
		v = "dbg"
	case 1:
		v = "dev"
	default:
		v = vrt.String("label-value-text", vrt.Len("label-value-len", 0, 2))
		for i := 0; i < len(v); i++ {
			vrt.Assume(v[i] >= 0x20 && v[i] < 0x7f && v[i] != '\'' && v[i] != '\\')
		}
	}
	f := mapDropFilter{col: sql.NewRawObject("labels"), labels: names, values: values}
	text, err := f.genFilterFn(sql.DefaultCtx())
	vrt.Assert(err == nil, "lambda-renders")
	toks, lexed := vlib.SQLLex(text)
	vrt.Assert(lexed, "lambda-lexes")
	kept, ok := vdEvalLambda(toks, k, v)
	vrt.Assert(ok, "lambda-shape-understood")
	want := true
	for i, n := range names {
		if k == n && (values[i] == "" || v == values[i]) {
			want = false
		}
	}
	vrt.Assert(kept == want, "label-kept-iff-no-parameter-drops-it")
	vrt.Reach("end")
}
