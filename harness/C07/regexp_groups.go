//go:build verif

// verif:pkg reader/logql/logql_transpiler_v2/clickhouse_planner
package clickhouse_planner

import (
	"regexp"

	"github.com/metrico/qryn/zzverif/vrt"
)

// vrGroup builds one bracket part: named or unnamed, containing literal text and up to `depth` levels of nested
// bracket parts chosen nondeterministically.
func vrGroup(depth int, next *int) regexPart {
	inner := &regexAST{RegexPart: []regexPart{{SimplePart: "x"}}}
	if depth > 0 {
		for k := vrt.Choice("nested-groups", 1+depth); k > 0; k-- {
			inner.RegexPart = append(inner.RegexPart, vrGroup(depth-1, next), regexPart{SimplePart: "y"})
		}
	}
	if vrt.Bool("named") {
		*next++
		return regexPart{NamedBrackPart: &brackPart{Name: "g" + string(rune('a'+*next)), Tail: inner}}
	}
	return regexPart{BrackPart: inner}
}

// vrNamedText renders the expression WITH its group names (the planner's own rendering drops them).
func vrNamedText(a *regexAST) string {
	out := ""
	for _, p := range a.RegexPart {
		switch {
		case p.SimplePart != "":
			out += p.SimplePart
		case p.NamedBrackPart != nil:
			out += "(?P<" + p.NamedBrackPart.Name + ">" + vrNamedText(p.NamedBrackPart.Tail) + ")"
		default:
			out += "(" + vrNamedText(p.BrackPart) + ")"
		}
	}
	return out
}

// VH_C07_regexp_parser_groups: the `| regexp` stage sends ClickHouse the expression without group names and
// a list of label names that extractAllGroups' capture numbers index. For every nesting of named and unnamed
// groups up to depth 2 the list equals the expression's capture groups in order of their opening parenthesis
// (what Go's regexp reports for the named text), and the nameless text has the same number of groups.
func VH_C07_regexp_parser_groups() {
	vrt.Unwind(400)
	next := 0
	ast := &regexAST{RegexPart: []regexPart{{SimplePart: "a"}}}
	for k := 1 + vrt.Choice("top-level-groups", 2); k > 0; k-- {
		ast.RegexPart = append(ast.RegexPart, vrGroup(2, &next), regexPart{SimplePart: "b"})
	}
	names := ast.collectGroupNames(nil)
	want := regexp.MustCompile(vrNamedText(ast)).SubexpNames()[1:]
	vrt.Assert(len(names) == len(want), "one-label-slot-per-capture-group")
	for i := range want {
		vrt.Assert(names[i] == want[i], "label-slot-i-names-capture-group-i")
	}
	vrt.Assert(regexp.MustCompile(ast.String()).NumSubexp() == len(want), "nameless-expression-has-the-same-groups")
	vrt.Reach("end")
}
