//go:build verif

// verif:pkg reader/logql/logql_transpiler_v2/clickhouse_planner
package clickhouse_planner

import (
	"strings"
	"time"

	"github.com/metrico/qryn/reader/logql/logql_parser"
	"github.com/metrico/qryn/reader/logql/logql_transpiler_v2/shared"
	sql "github.com/metrico/qryn/reader/utils/sql_select"
	"github.com/metrico/qryn/zzverif/vrt"
)

func vpQ(s string) logql_parser.QuotedString { return logql_parser.QuotedString{Str: `"` + s + `"`} }

func vpLabelStage(name, val string) logql_parser.StrSelectorPipeline {
	q := vpQ(val)
	return logql_parser.StrSelectorPipeline{LabelFilter: &logql_parser.LabelFilter{Head: logql_parser.Head{
		SimpleHead: &logql_parser.SimpleLabelFilter{Label: logql_parser.LabelName{Name: name}, Fn: "=", StrVal: &q}}}}
}

func vpCtx() *shared.PlannerContext {
	return &shared.PlannerContext{From: time.Unix(1700000000, 0), To: time.Unix(1700000600, 0), Limit: 10,
		SamplesTableName: "samples_v3", TimeSeriesTableName: "time_series", TimeSeriesDistTableName: "time_series",
		TimeSeriesGinTableName: "time_series_gin", CHSqlCtx: sql.DefaultCtx(), CHFinalize: true}
}

// VH_C07_plan_pipeline: the WHOLE plan of a log query built by the real Plan() from a hand-built AST
// (the participle parser is third-party): selector + 0..3 pipeline stages chosen from {label filter on env,
// label filter on level, line filter}. Every stage written in the query takes effect: its condition appears
// in the rendered statement (a stage must not silently replace or drop an earlier one).
func VH_C07_plan_pipeline() {
	vrt.Unwind(400)
	vrt.ConcreteUnwind(200000)
	sel := &logql_parser.StrSelector{StrSelCmds: []logql_parser.StrSelCmd{{Label: logql_parser.LabelName{Name: "app"}, Op: "=", Val: vpQ("a")}}}
	n := vrt.Len("stages", 0, 3)
	var wantFragments []string
	for i := 0; i < n; i++ {
		switch vrt.Choice("stage-kind", 4) {
		case 3:
			// a stage that needs the joined labels (planned in SQL): everything after it filters the joined rows
			sel.Pipelines = append(sel.Pipelines, logql_parser.StrSelectorPipeline{Drop: &logql_parser.Drop{Fn: "drop",
				Params: []logql_parser.DropParam{{Label: logql_parser.LabelName{Name: "pod"}}}}})
			wantFragments = append(wantFragments, "'pod'")
		case 0:
			sel.Pipelines = append(sel.Pipelines, vpLabelStage("env", "prod"))
			wantFragments = append(wantFragments, "'env'", "'prod'")
		case 1:
			sel.Pipelines = append(sel.Pipelines, vpLabelStage("level", "error"))
			wantFragments = append(wantFragments, "'level'", "'error'")
		default:
			sel.Pipelines = append(sel.Pipelines, logql_parser.StrSelectorPipeline{LineFilter: &logql_parser.LineFilter{Fn: "|=", Val: vpQ("needle")}})
			wantFragments = append(wantFragments, "'%needle%'")
		}
	}
	plan, err := Plan(&logql_parser.LogQLScript{StrSelector: sel}, true)
	vrt.Assert(err == nil, "query-plans")
	req, err := plan.Process(vpCtx())
	vrt.Assert(err == nil, "plan-processes")
	text, err := req.String(sql.DefaultCtx())
	vrt.Assert(err == nil, "plan-renders")
	vrt.Assert(strings.Contains(text, "'app'") && strings.Contains(text, "('a')"), "selector-matcher-present")
	for _, f := range wantFragments {
		vrt.Assert(strings.Contains(text, f), "every-pipeline-stage-takes-effect")
	}
	vrt.Assert(strings.Contains(text, "LIMIT 10"), "limit-passed-through")
	// the limit cuts the rows that passed EVERY stage: it appears once, after the last stage's condition
	vrt.Assert(strings.Count(text, "LIMIT") == 1, "limit-applied-once")
	last := strings.Index(text, "LIMIT")
	for _, f := range wantFragments {
		vrt.Assert(strings.LastIndex(text, f) < last || strings.Index(text, f) < 0, "limit-applied-after-every-stage")
	}
	vrt.Reach("end")
}
