//go:build verif

// verif:pkg reader/logql/logql_transpiler_v2/clickhouse_planner
package clickhouse_planner

import (
	"strings"

	"github.com/metrico/qryn/reader/logql/logql_parser"
	"github.com/metrico/qryn/reader/logql/logql_transpiler_v2/shared"
	sql "github.com/metrico/qryn/reader/utils/sql_select"
	"github.com/metrico/qryn/zzverif/vrt"
)

// One row: the labels `a` and `b` with symbolic string values; numeric parsing of a label value
// (toFloat64OrNull) and regex matching are uninterpreted answers per atom.
type vlAtom struct {
	label  string
	fn     string
	str    string // for string operators
	num    string // for numeric operators
	isNull bool   // toFloat64OrNull(label) IS NULL for this row
	cmp    bool   // uninterpreted: numeric comparison / regex match holds for this row
}

func vlMakeAtom(i int) (*logql_parser.SimpleLabelFilter, vlAtom) {
	fns := []string{"=", "!=", "!~", "==", ">"}
	if vrt.Thorough() {
		fns = []string{"=", "!=", "=~", "!~", "==", ">", "<="}
	}
	a := vlAtom{label: []string{"a", "b", "a"}[i], fn: fns[vrt.Choice("atom-operator", len(fns))]}
	f := &logql_parser.SimpleLabelFilter{Label: logql_parser.LabelName{Name: a.label}, Fn: a.fn}
	switch a.fn {
	case "=", "!=", "=~", "!~":
		a.str = []string{"x", "y", "x"}[i]
		f.StrVal = &logql_parser.QuotedString{Str: `"` + a.str + `"`}
	default:
		a.num = []string{"5", "7.5", "0"}[i]
		f.NumVal = a.num
	}
	a.isNull = vrt.Bool("label-not-numeric")
	a.cmp = vrt.Bool("primitive-holds")
	return f, a
}

// vlEval evaluates the produced condition for the row. It understands exactly the node shapes the
// planner is documented to produce; anything else is "unknown shape" (inconclusive, no alarm).
func vlEval(c sql.SQLCondition, row map[string]string, atoms []vlAtom, used *int) (bool, bool) {
	fn := c.GetFunction()
	switch fn {
	case "and", "or":
		res := fn == "and"
		for _, e := range c.GetEntity() {
			sub, ok := e.(sql.SQLCondition)
			if !ok {
				return false, false
			}
			v, k := vlEval(sub, row, atoms, used)
			if !k {
				return false, false
			}
			if fn == "and" {
				res = res && v
			} else {
				res = res || v
			}
		}
		return res, true
	case "IS NOT NULL":
		// belongs to the numeric atom that follows: peek
		if *used >= len(atoms) {
			return false, false
		}
		return !atoms[*used].isNull, true
	}
	ent := c.GetEntity()
	if len(ent) != 2 || *used >= len(atoms) {
		return false, false
	}
	a := atoms[*used]
	*used++
	lhs, _ := ent[0].String(sql.DefaultCtx())
	rhs, _ := ent[1].String(sql.DefaultCtx())
	lab := "labels['" + a.label + "']"
	switch {
	case lhs == lab && (fn == "==" || fn == "!="):
		eq := rhs == "'"+row[a.label]+"'"
		if fn == "==" {
			return eq, true
		}
		return !eq, true
	case strings.HasPrefix(lhs, "match("+lab+",") && fn == "==":
		if rhs == "1" {
			return a.cmp, true
		}
		if rhs == "0" {
			return !a.cmp, true
		}
	case lhs == "toFloat64OrNull("+lab+")":
		// SQL three-valued logic collapses to false on NULL because of the IS NOT NULL conjunct
		switch fn {
		case "==", "!=", ">", ">=", "<", "<=":
			return !a.isNull && a.cmp, true
		}
	}
	return false, false
}

// vlRef is the LogQL meaning of one atom for the row (same uninterpreted primitives).
func vlRef(a vlAtom, row map[string]string) bool {
	switch a.fn {
	case "=":
		return row[a.label] == a.str
	case "!=":
		return row[a.label] != a.str
	case "=~":
		return a.cmp
	case "!~":
		return !a.cmp
	}
	return !a.isNull && a.cmp // numeric comparison on a label that parses as a number
}

type vlMain struct{}

func (vlMain) Process(ctx *shared.PlannerContext) (sql.ISelect, error) {
	return sql.NewSelect().Select(sql.NewRawObject("labels")).From(sql.NewRawObject("t")), nil
}

// VH_C07_labelfilter: label filter expressions of the shapes  A,  A op B,  (A op B) op C,  A op (B op C)
// with and/or, over string (= != =~ !~) and numeric (== > <=) comparisons: the WHERE skeleton the planner
// builds evaluates, for every row, to the LogQL meaning of the expression (parentheses and operators kept).
func VH_C07_labelfilter() {
	vrt.Unwind(300)
	ra, rb := vrt.Byte("row-a"), vrt.Byte("row-b")
	vrt.Assume(ra >= 'w')
	vrt.Assume(ra <= 'z')
	vrt.Assume(rb >= 'w')
	vrt.Assume(rb <= 'z')
	row := map[string]string{"a": string([]byte{ra}), "b": string([]byte{rb})}
	shape := vrt.Choice("expression-shape", 4)
	n := []int{1, 2, 3, 3}[shape]
	var fs []*logql_parser.SimpleLabelFilter
	var atoms []vlAtom
	for i := 0; i < n; i++ {
		f, a := vlMakeAtom(i)
		fs = append(fs, f)
		atoms = append(atoms, a)
	}
	ops := []string{"and", "or"}
	op1, op2 := ops[vrt.Choice("operator-1", 2)], ops[vrt.Choice("operator-2", 2)]
	simple := func(i int) logql_parser.Head { return logql_parser.Head{SimpleHead: fs[i]} }
	var expr *logql_parser.LabelFilter
	var want bool
	r := func(i int) bool { return vlRef(atoms[i], row) }
	comb := func(op string, x, y bool) bool {
		if op == "and" {
			return x && y
		}
		return x || y
	}
	switch shape {
	case 0:
		expr = &logql_parser.LabelFilter{Head: simple(0)}
		want = r(0)
	case 1:
		expr = &logql_parser.LabelFilter{Head: simple(0), Op: op1, Tail: &logql_parser.LabelFilter{Head: simple(1)}}
		want = comb(op1, r(0), r(1))
	case 2: // (A op1 B) op2 C
		inner := &logql_parser.LabelFilter{Head: simple(0), Op: op1, Tail: &logql_parser.LabelFilter{Head: simple(1)}}
		expr = &logql_parser.LabelFilter{Head: logql_parser.Head{ComplexHead: inner}, Op: op2, Tail: &logql_parser.LabelFilter{Head: simple(2)}}
		want = comb(op2, comb(op1, r(0), r(1)), r(2))
	default: // A op1 (B op2 C)
		inner := &logql_parser.LabelFilter{Head: simple(1), Op: op2, Tail: &logql_parser.LabelFilter{Head: simple(2)}}
		expr = &logql_parser.LabelFilter{Head: simple(0), Op: op1, Tail: &logql_parser.LabelFilter{Head: logql_parser.Head{ComplexHead: inner}}}
		want = comb(op1, r(0), comb(op2, r(1), r(2)))
	}
	p := &LabelFilterPlanner{Expr: expr, Main: vlMain{}}
	sel, err := p.Process(&shared.PlannerContext{CHSqlCtx: sql.DefaultCtx()})
	vrt.Assert(err == nil, "plan-processes")
	used := 0
	got, known := vlEval(sel.GetWhere(), row, atoms, &used)
	if !known {
		vrt.Reach("inconclusive-shape")
		return
	}
	vrt.Assert(used == n, "every-atom-appears-once-in-order")
	vrt.Assert(got == want, "where-skeleton-means-the-label-filter-expression")
	vrt.Reach("end")
}
