//go:build verif

// verif:pkg reader/logql/logql_transpiler_v2/clickhouse_planner
package clickhouse_planner

import (
	"strings"

	"github.com/metrico/qryn/reader/logql/logql_transpiler_v2/shared"
	sql "github.com/metrico/qryn/reader/utils/sql_select"
	"github.com/metrico/qryn/zzverif/vlib"
	"github.com/metrico/qryn/zzverif/vrt"
)

type vsMain struct{}

func (vsMain) Process(ctx *shared.PlannerContext) (sql.ISelect, error) {
	return sql.NewSelect().Select(sql.NewRawObject("string")).From(sql.NewRawObject("samples")), nil
}

// vsEval evaluates the WHERE skeleton the planner built for one row. ClickHouse primitives are
// uninterpreted: the row's answer to "does the line contain/match the (same) text" is the symbolic bool
// `hit` for like/ilike/match and its negation for notLike/notILike. Unknown shapes are inconclusive.
func vsEval(cond sql.SQLCondition, hit bool) (val bool, known bool) {
	if fn := cond.GetFunction(); fn == "and" || fn == "or" {
		val = fn == "and"
		for _, e := range cond.GetEntity() {
			c, ok := e.(sql.SQLCondition)
			if !ok {
				return false, false
			}
			v, k := vsEval(c, hit)
			if !k {
				return false, false
			}
			if fn == "and" {
				val = val && v
			} else {
				val = val || v
			}
		}
		return val, true
	}
	if cond.GetFunction() != "==" {
		return false, false
	}
	ent := cond.GetEntity()
	if len(ent) != 2 {
		return false, false
	}
	rhs, err := ent[1].String(sql.DefaultCtx())
	if err != nil || (rhs != "1" && rhs != "0") {
		return false, false
	}
	lhs, err := ent[0].String(sql.DefaultCtx())
	if err != nil {
		return false, false
	}
	var prim bool
	switch {
	case strings.HasPrefix(lhs, "like(") || strings.HasPrefix(lhs, "ilike(") || strings.HasPrefix(lhs, "match("):
		prim = hit
	case strings.HasPrefix(lhs, "notLike(") || strings.HasPrefix(lhs, "notILike("):
		prim = !hit
	default:
		return false, false
	}
	if rhs == "1" {
		return prim, true
	}
	return !prim, true
}

func vsFilterValue() string {
	switch vrt.Choice("filter-shape", 4) {
	case 0:
		return vrt.String("literal", vrt.Len("literal-len", 0, 2))
	case 1:
		return "a.*" + vrt.String("tail", 1)
	case 2:
		return "(?i)ab" + vrt.String("tail", 1)
	default:
		return vrt.String("head", 1) + "[0-9]+"
	}
}

func vsCond(op, val string) sql.SQLCondition {
	l := &LineFilterPlanner{Op: op, Val: val, Main: vsMain{}}
	req, err := l.Process(&shared.PlannerContext{CHSqlCtx: sql.DefaultCtx()})
	vrt.Assert(err == nil, "plan-processes")
	return req.GetWhere()
}

// VH_C07_linefilter_complement: for every filter text, the negative line filters (!=, !~) select exactly
// the lines the positive ones (|=, |~) reject: the WHERE skeletons are complementary for both answers of
// the underlying ClickHouse primitive.
func VH_C07_linefilter_complement() {
	vrt.Unwind(400)
	val := vsFilterValue()
	for i := 0; i < len(val); i++ {
		vrt.Assume(val[i] >= 0x20)
		vrt.Assume(val[i] < 0x7f)
	}
	hit := vrt.Bool("line-matches-the-text")
	pos, neg := "|=", "!="
	if vrt.Bool("regex-operators") {
		pos, neg = "|~", "!~"
	}
	pv, pk := vsEval(vsCond(pos, val), hit)
	nv, nk := vsEval(vsCond(neg, val), hit)
	if !pk || !nk {
		vrt.Reach("inconclusive-shape")
		return
	}
	vrt.Assert(pv == hit, "positive-filter-keeps-exactly-the-matching-lines")
	vrt.Assert(nv == !pv, "negative-filter-is-the-complement-of-the-positive-one")
	// the one primitive whose meaning IS decided in Go: a LIKE pattern is text qryn builds. For |= the
	// pattern literal must mean "contains the filter text" (ClickHouse string-literal and LIKE escape rules).
	if pos == "|=" {
		txt, err := vsCond(pos, val).String(sql.DefaultCtx())
		vrt.Assert(err == nil, "condition-renders")
		toks, ok := vlib.SQLLex(txt)
		vrt.Assert(ok, "condition-lexes")
		found := false
		for _, t := range toks {
			if t.Kind == 'S' {
				lit, isContains := vlib.LikeContainsLiteral(t.Text)
				vrt.Assert(isContains, "like-pattern-is-an-escaped-contains-pattern")
				vrt.Assert(lit == val, "like-pattern-means-contains-the-filter-text")
				found = true
			}
		}
		vrt.Assert(found, "like-pattern-literal-present")
	}
	vrt.Reach("end")
}
