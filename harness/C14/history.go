//go:build verif

// verif:pkg reader/logql/logql_transpiler_v2/clickhouse_planner
package clickhouse_planner

import (
	"time"

	"github.com/metrico/qryn/reader/logql/logql_transpiler_v2/shared"
	sql "github.com/metrico/qryn/reader/utils/sql_select"
	"github.com/metrico/qryn/zzverif/vlib"
	"github.com/metrico/qryn/zzverif/vrt"
)

// vhTranslate plans and renders query `kind` with request text `text` from scratch (a new plan object,
// a new planner context), as one API request does.
func vhTranslate(kind int, text string) string {
	ctx := &shared.PlannerContext{From: time.Unix(1700000000, 0), To: time.Unix(1700000600, 0),
		TimeSeriesGinTableName: "time_series_gin", CHSqlCtx: sql.DefaultCtx()}
	var p shared.SQLRequestPlanner
	switch kind {
	case 0:
		p = &StreamSelectPlanner{LabelNames: []string{"job"}, Ops: []string{"=~"}, Values: []string{text}}
	case 1:
		p = &StreamSelectPlanner{LabelNames: []string{"job"}, Ops: []string{"!~"}, Values: []string{text}}
	case 2:
		p = &LineFilterPlanner{Op: "|~", Val: text, Main: vdMain{}}
	case 3:
		p = &LineFilterPlanner{Op: "!~", Val: text, Main: vdMain{}}
	default:
		p = &LineFilterPlanner{Op: "|=", Val: text, Main: vdMain{}}
	}
	sel, err := p.Process(ctx)
	vrt.Assert(err == nil, "plan-processes")
	s, err := sel.String(sql.DefaultCtx())
	vrt.Assert(err == nil, "plan-renders")
	return s
}

// VH_C14_translation_history: translating query X with text Q after another query Y with the same text
// was translated in the process gives what translating X does in a fresh process: the statement of X[P]
// rendered first (nothing translated before it) and the statement of X[Q] rendered after Y[Q] have the
// same token structure and the same texts, except that literals carrying P carry Q. X and Y range over
// selector and line-filter forms that share the match()/LIKE machinery; P and Q are symbolic.
func VH_C14_translation_history() {
	vrt.Unwind(600)
	x := vrt.Choice("measured-query", 5)
	y := vrt.Choice("earlier-query", 5)
	pb, qb := vrt.Byte("first-text"), vrt.Byte("second-text")
	vrt.Assume(pb >= 'a' && pb <= 'z')
	vrt.Assume(qb >= 'a' && qb <= 'z')
	vrt.Assume(pb != qb)
	p := string([]byte{pb}) + "x.+"
	q := string([]byte{qb}) + "x.+"
	fresh := vhTranslate(x, p)
	_ = vhTranslate(y, q)
	later := vhTranslate(x, q)
	ft, ok := vlib.SQLLex(fresh)
	vrt.Assert(ok, "fresh-statement-lexes")
	lt, ok2 := vlib.SQLLex(later)
	vrt.Assert(ok2, "later-statement-lexes")
	vrt.Assert(len(ft) == len(lt), "same-number-of-tokens-as-in-a-fresh-process")
	carried := 0
	for i := range ft {
		vrt.Assert(ft[i].Kind == lt[i].Kind, "same-token-kinds-as-in-a-fresh-process")
		if ft[i].Kind == 'S' && ft[i].Text != lt[i].Text {
			// the only permitted difference: this request's text byte in place of the other request's
			vrt.Assert(len(ft[i].Text) == len(lt[i].Text), "literal-length-as-in-a-fresh-process")
			for j := 0; j < len(ft[i].Text); j++ {
				if ft[i].Text[j] != lt[i].Text[j] {
					vrt.Assert(ft[i].Text[j] == pb && lt[i].Text[j] == qb, "literal-carries-this-requests-text")
				}
			}
			carried++
			continue
		}
		vrt.Assert(ft[i].Text == lt[i].Text, "same-token-text-as-in-a-fresh-process")
	}
	vrt.Assert(carried >= 1, "request-text-found-in-the-statement")
	vrt.Reach("end")
}
