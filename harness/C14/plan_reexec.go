//go:build verif

// verif:pkg reader/logql/logql_transpiler_v2/clickhouse_planner
package clickhouse_planner

import (
	"time"

	"github.com/metrico/qryn/reader/logql/logql_parser"
	"github.com/metrico/qryn/reader/logql/logql_transpiler_v2/shared"
	sql "github.com/metrico/qryn/reader/utils/sql_select"
	"github.com/metrico/qryn/zzverif/vrt"
)

func vxQ(s string) logql_parser.QuotedString { return logql_parser.QuotedString{Str: `"` + s + `"`} }

func vxLabelStage(name, val string) logql_parser.StrSelectorPipeline {
	q := vxQ(val)
	return logql_parser.StrSelectorPipeline{LabelFilter: &logql_parser.LabelFilter{Head: logql_parser.Head{
		SimpleHead: &logql_parser.SimpleLabelFilter{Label: logql_parser.LabelName{Name: name}, Fn: "=", StrVal: &q}}}}
}

// vxScript builds a log query AST: {app="a"} followed by stages chosen nondeterministically from a label
// filter before any parser, a line filter, a parser (json / logfmt) and a label filter after the parser.
func vxScript() *logql_parser.LogQLScript {
	if vrt.Bool("metric-query") {
		// rate({app="a"} [|= "needle"] [1m]) plain, or aggregated: sum by (level) (...) / sum without (pod) (...)
		sel := logql_parser.StrSelector{StrSelCmds: []logql_parser.StrSelCmd{{Label: logql_parser.LabelName{Name: "app"}, Op: "=", Val: vxQ("a")}}}
		if vrt.Bool("line-filter") {
			sel.Pipelines = append(sel.Pipelines, logql_parser.StrSelectorPipeline{LineFilter: &logql_parser.LineFilter{Fn: "|=", Val: vxQ("needle")}})
		}
		lra := logql_parser.LRAOrUnwrap{Fn: []string{"rate", "count_over_time"}[vrt.Choice("range-function", 2)], StrSel: sel, Time: "1", TimeUnit: "m"}
		switch vrt.Choice("grouping", 3) {
		case 0:
			return &logql_parser.LogQLScript{LRAOrUnwrap: &lra}
		case 1:
			return &logql_parser.LogQLScript{AggOperator: &logql_parser.AggOperator{Fn: "sum", LRAOrUnwrap: lra,
				ByOrWithoutPrefix: &logql_parser.ByOrWithout{Fn: "by", Labels: []logql_parser.LabelName{{Name: "level"}}}}}
		default:
			return &logql_parser.LogQLScript{AggOperator: &logql_parser.AggOperator{Fn: "sum", LRAOrUnwrap: lra,
				ByOrWithoutSuffix: &logql_parser.ByOrWithout{Fn: "without", Labels: []logql_parser.LabelName{{Name: "pod"}}}}}
		}
	}
	sel := &logql_parser.StrSelector{StrSelCmds: []logql_parser.StrSelCmd{{Label: logql_parser.LabelName{Name: "app"}, Op: "=", Val: vxQ("a")}}}
	if vrt.Bool("label-filter-before-parser") {
		sel.Pipelines = append(sel.Pipelines, vxLabelStage("env", "prod"))
	}
	if vrt.Bool("line-filter") {
		sel.Pipelines = append(sel.Pipelines, logql_parser.StrSelectorPipeline{LineFilter: &logql_parser.LineFilter{Fn: "|=", Val: vxQ("needle")}})
	}
	if k := vrt.Choice("parser", 3); k > 0 {
		sel.Pipelines = append(sel.Pipelines, logql_parser.StrSelectorPipeline{Parser: &logql_parser.Parser{Fn: []string{"", "json", "logfmt"}[k]}})
		if vrt.Bool("label-filter-after-parser") {
			sel.Pipelines = append(sel.Pipelines, vxLabelStage("lvl", "error"))
		}
	}
	return &logql_parser.LogQLScript{StrSelector: sel}
}

func vxCtx(tick int64) *shared.PlannerContext {
	return &shared.PlannerContext{From: time.Unix(1700000000+tick, 0), To: time.Unix(1700000005+tick, 0), Limit: 10, Step: 5 * time.Second,
		SamplesTableName: "samples_v3", TimeSeriesTableName: "time_series", TimeSeriesDistTableName: "time_series",
		TimeSeriesGinTableName: "time_series_gin", CHSqlCtx: sql.DefaultCtx(), CHFinalize: true}
}

// VH_C14_plan_reexecution: a whole prepared log-query plan (real Plan() from a hand-built AST) is executed
// three times with the time bounds advancing by one second each time, as live tailing does. Every execution
// renders exactly the statement a freshly prepared plan of the same query renders for the same bounds.
func VH_C14_plan_reexecution() {
	vrt.Unwind(600)
	vrt.ConcreteUnwind(400000)
	script := vxScript()
	plan, err := Plan(script, true)
	vrt.Assert(err == nil, "query-plans")
	// queries the SQL planner does not take (it hands them to the in-process engine) are not the subject
	if probe, err := Plan(script, true); err != nil {
		vrt.Assume(false)
	} else if _, err := probe.Process(vxCtx(0)); err != nil {
		vrt.Assume(false)
	}
	for tick := int64(0); tick < 3; tick++ {
		req, err := plan.Process(vxCtx(tick))
		vrt.Assert(err == nil, "prepared-plan-processes")
		got, err := req.String(sql.DefaultCtx())
		vrt.Assert(err == nil, "prepared-plan-renders")
		fresh, err := Plan(script, true)
		vrt.Assert(err == nil, "query-plans-again")
		freq, err := fresh.Process(vxCtx(tick))
		vrt.Assert(err == nil, "fresh-plan-processes")
		want, err := freq.String(sql.DefaultCtx())
		vrt.Assert(err == nil, "fresh-plan-renders")
		vrt.Assert(got == want, "re-executed-plan-renders-what-a-fresh-plan-renders-for-the-same-bounds")
	}
	vrt.Reach("end")
}
