//go:build verif

// verif:pkg reader/traceql/transpiler/clickhouse_transpiler
package clickhouse_transpiler

import (
	"github.com/metrico/qryn/reader/logql/logql_transpiler_v2/shared"
	traceql_parser "github.com/metrico/qryn/reader/traceql/parser"
	sql "github.com/metrico/qryn/reader/utils/sql_select"
	"github.com/metrico/qryn/zzverif/vrt"
)

type vtMain struct{}

func (vtMain) Process(ctx *shared.PlannerContext) (sql.ISelect, error) {
	return sql.NewSelect().Select(sql.NewRawObject("trace_id"), sql.NewRawObject("span_id")).
		From(sql.NewRawObject("tempo_traces_attrs_gin")), nil
}

func vtPlan(twoTerms bool, agg string, v1, v2 string) *AttrConditionPlanner {
	t1 := &traceql_parser.AttrSelector{Label: "span.http", Op: "=", Val: traceql_parser.Value{StrVal: &traceql_parser.QuotedString{Str: v1}}}
	p := &AttrConditionPlanner{Main: vtMain{}, Terms: []*traceql_parser.AttrSelector{t1}, Conds: &condition{simpleIdx: 0}, AggregatedAttr: agg}
	if twoTerms {
		t2 := &traceql_parser.AttrSelector{Label: ".code", Op: ">", Val: traceql_parser.Value{FVal: v2}}
		p.Terms = append(p.Terms, t2)
		p.Conds = &condition{simpleIdx: -1, op: "&&", complex: []*condition{{simpleIdx: 0}, {simpleIdx: 1}}}
	}
	return p
}

// vtCanon renders a condition with the operands of and/or de-duplicated and in first-occurrence order:
// "a or a or b" means the same as "a or b", so repeated operands are not a change of meaning.
func vtCanon(c sql.SQLCondition) string {
	if c == nil {
		return ""
	}
	fn := c.GetFunction()
	if fn == "and" || fn == "or" {
		var parts []string
		for _, e := range c.GetEntity() {
			var t string
			if sub, ok := e.(sql.SQLCondition); ok {
				t = vtCanon(sub)
			} else {
				t, _ = e.String(sql.DefaultCtx())
			}
			dup := false
			for _, p := range parts {
				if p == t {
					dup = true
				}
			}
			if !dup {
				parts = append(parts, t)
			}
		}
		out := fn + "("
		for i, p := range parts {
			if i > 0 {
				out += ","
			}
			out += p
		}
		return out + ")"
	}
	t, err := c.String(sql.DefaultCtx())
	vrt.Assert(err == nil, "condition-renders")
	return t
}

func vtRender(p *AttrConditionPlanner, ctx *shared.PlannerContext) string {
	ctx.CHSqlCtx = sql.DefaultCtx()
	sel, err := p.Process(ctx)
	vrt.Assert(err == nil, "plan-processes")
	out := ""
	for _, c := range sel.GetSelect() {
		t, err := c.String(sql.DefaultCtx())
		vrt.Assert(err == nil, "column-renders")
		out += t + ";"
	}
	out += " WHERE " + vtCanon(sel.GetWhere()) + " HAVING " + vtCanon(sel.GetHaving())
	// the full statement must render, too
	_, err = sel.String(sql.DefaultCtx())
	vrt.Assert(err == nil, "plan-renders")
	return out
}

// VH_C14_traceql_attr_replan: a TraceQL attribute-condition plan is processed once per "portion" of a
// complex request (same plan object, context with/without cached trace ids and random filter). Every
// execution must render what a freshly built plan of the same query renders for the same context.
func VH_C14_traceql_attr_replan() {
	vrt.Unwind(300)
	two := vrt.Bool("two-terms")
	agg := []string{"", "duration", "span.size", "span.http.status_code", "resource.k8s.pod.name", ".a.b"}[vrt.Choice("aggregated-attribute", 6)]
	v1 := "\"" + vrt.String("string-value", 1) + "\""
	vrt.Assume(v1[1] != '"')
	vrt.Assume(v1[1] != '\\')
	vrt.Assume(v1[1] >= 0x20)
	vrt.Assume(v1[1] < 0x80)
	v2 := "5"
	plan := vtPlan(two, agg, v1, v2)
	runs := 3
	for r := 0; r < runs; r++ {
		ctx := &shared.PlannerContext{}
		if vrt.Bool("random-filter") {
			ctx.RandomFilter = shared.RandomFilter{Max: 4, I: r}
			if vrt.Bool("cached-trace-ids") {
				ctx.CachedTraceIds = []string{"00ff"}
			}
		}
		got := vtRender(plan, ctx)
		ctx2 := *ctx
		want := vtRender(vtPlan(two, agg, v1, v2), &ctx2)
		vrt.Assert(got == want, "re-executed-plan-renders-what-a-fresh-plan-renders")
	}
	vrt.Reach("end")
}
