//go:build verif

// verif:pkg reader/logql/logql_transpiler_v2/clickhouse_planner
package clickhouse_planner

import (
	"github.com/metrico/qryn/reader/logql/logql_transpiler_v2/shared"
	sql "github.com/metrico/qryn/reader/utils/sql_select"
	"github.com/metrico/qryn/zzverif/vrt"
)

type vdMain struct{}

func (vdMain) Process(ctx *shared.PlannerContext) (sql.ISelect, error) {
	return sql.NewSelect().Select(sql.NewRawObject("string")).From(sql.NewRawObject("samples")), nil
}

func vdRender(l *LineFilterPlanner) string {
	req, err := l.Process(&shared.PlannerContext{CHSqlCtx: sql.DefaultCtx()})
	vrt.Assert(err == nil, "plan-processes")
	s, err := req.String(sql.DefaultCtx())
	vrt.Assert(err == nil, "plan-renders")
	return s
}

// vdFilterValue: the text of a line filter: symbolic bytes around / inside the regex meta characters that
// decide between the LIKE and the match() form.
func vdFilterValue() string {
	switch vrt.Choice("filter-shape", 5) {
	case 0:
		return vrt.String("literal", vrt.Len("literal-len", 0, 2))
	case 1:
		return "a\\." + vrt.String("tail", 1) // escaped dot: a literal after unescaping
	case 2:
		return "a.*" + vrt.String("tail", 1)
	case 3:
		return "(?i)ab" + vrt.String("tail", 1)
	default:
		return vrt.String("head", 1) + "\\\\d+"
	}
}

// VH_C14_linefilter_replan: executing one prepared line-filter plan repeatedly (live tailing re-executes
// the plan every second) renders the same SQL every time, for every operator and filter text.
func VH_C14_linefilter_replan() {
	vrt.Unwind(400)
	ops := []string{"|=", "!=", "|~", "!~"}
	op := ops[vrt.Choice("operator", 4)]
	val := vdFilterValue()
	for i := 0; i < len(val); i++ {
		vrt.Assume(val[i] >= 0x20)
		vrt.Assume(val[i] < 0x7f)
	}
	l := &LineFilterPlanner{Op: op, Val: val, Main: vdMain{}}
	first := vdRender(l)
	second := vdRender(l)
	vrt.Assert(first == second, "second-execution-of-the-plan-renders-the-same-sql")
	third := vdRender(l)
	vrt.Assert(second == third, "third-execution-of-the-plan-renders-the-same-sql")
	vrt.Assert(l.Val == val, "plan-object-not-modified-by-execution")
	vrt.Reach("end")
}
