//go:build verif

// verif:pkg reader/utils/middleware
package middleware

import (
	"encoding/base64"
	"net/http"

	"github.com/metrico/qryn/zzverif/vrt"
)

type vhWriter struct {
	hdr    http.Header
	code   int
	wrote  int
	closed bool
}

func (w *vhWriter) Header() http.Header { return w.hdr }
func (w *vhWriter) Write(b []byte) (int, error) {
	if w.code == 0 {
		w.code = 200
	}
	w.wrote += len(b)
	return len(b), nil
}
func (w *vhWriter) WriteHeader(code int) {
	if w.code == 0 {
		w.code = code
	}
}

// VH_C20_auth: with login/password configured, the wrapped handler runs if and only if the
// Authorization header is exactly "Basic " + base64(login ":" password); otherwise 401/400 and the
// handler is never entered.
func VH_C20_auth() {
	vrt.Unwind(400)
	// Configured credentials: a table of representative configurations (1- and 2-byte user, password with
	// and without ':'; symbolic credentials made the base64 reference encoder explode, see DESIGN).
	var login, pass string
	switch vrt.Choice("credentials", 4) {
	case 0:
		login, pass = "u", "p"
	case 1:
		login, pass = "ab", "c:"
	case 2:
		login, pass = "a", ":"
	default:
		login, pass = "us", "pw"
	}
	// Header classes (the union is the claim): 0 absent; 1 any header of <= 7 bytes (other schemes,
	// truncated prefixes, no space); 2 "Basic " followed by any 0..10 bytes (every base64 / malformed payload).
	class := vrt.Choice("header-class", 3)
	hasHeader := class != 0
	auth := ""
	switch class {
	case 1:
		auth = vrt.String("authorization", vrt.Len("header-len", 0, 7))
	case 2:
		auth = "Basic " + vrt.String("authorization-payload", vrt.Len("payload-len", 0, vhPayloadMax()))
	}

	// net/http rejects requests whose header values contain CR or LF before any handler runs
	// (server.go: httpguts.ValidHeaderFieldValue) - documented contract, assumed here.
	for i := 0; i < len(auth); i++ {
		vrt.Assume(auth[i] != '\n')
		vrt.Assume(auth[i] != '\r')
	}

	called := 0
	next := http.HandlerFunc(func(w http.ResponseWriter, r *http.Request) { called++ })
	h := BasicAuthMiddleware(login, pass)(next)
	w := &vhWriter{hdr: http.Header{}}
	r := &http.Request{Header: http.Header{}}
	if hasHeader {
		r.Header["Authorization"] = []string{auth}
	}
	h.ServeHTTP(w, r)

	right := "Basic " + base64.StdEncoding.EncodeToString([]byte(login+":"+pass))
	vrt.Assert(called <= 1, "handler-entered-at-most-once")
	if hasHeader && auth == right {
		vrt.Assert(called == 1, "right-credentials-pass")
		vrt.Reach("pass")
		return
	}
	if called == 1 {
		// the handler ran: the header must carry exactly the configured credentials
		// (independent RFC 4648 reference decoder; non-canonical padding bits decode to the same bytes)
		vrt.Assert(len(auth) >= 6, "passing-header-has-basic-prefix")
		vrt.Assert(auth[:6] == "Basic ", "passing-header-has-basic-prefix")
		dec, ok := vhB64(auth[6:])
		vrt.Assert(ok, "passing-header-payload-is-well-formed-base64")
		vrt.Assert(string(dec) == login+":"+pass, "handler-not-entered-without-exact-credentials")
		vrt.Reach("pass-noncanonical")
		return
	}
	vrt.Assert(w.code == 401 || w.code == 400, "rejected-with-401-or-400")
	vrt.Reach("reject")
}

func vhB64Val(c byte) int {
	if c >= 'A' && c <= 'Z' {
		return int(c - 'A')
	}
	if c >= 'a' && c <= 'z' {
		return int(c-'a') + 26
	}
	if c >= '0' && c <= '9' {
		return int(c-'0') + 52
	}
	if c == '+' {
		return 62
	}
	if c == '/' {
		return 63
	}
	return -1
}

// vhB64 is a strict RFC 4648 (padded, standard alphabet) reference decoder.
func vhB64(s string) ([]byte, bool) {
	if len(s)%4 != 0 {
		return nil, false
	}
	var out []byte
	for i := 0; i < len(s); i += 4 {
		var v [4]int
		pad := 0
		for j := 0; j < 4; j++ {
			c := s[i+j]
			if c == '=' {
				if i+4 != len(s) || j < 2 {
					return nil, false
				}
				pad++
				continue
			}
			if pad > 0 {
				return nil, false
			}
			d := vhB64Val(c)
			if d < 0 {
				return nil, false
			}
			v[j] = d
		}
		n := v[0]<<18 | v[1]<<12 | v[2]<<6 | v[3]
		out = append(out, byte(n>>16))
		if pad < 2 {
			out = append(out, byte(n>>8))
		}
		if pad < 1 {
			out = append(out, byte(n))
		}
	}
	return out, true
}

func vhPayloadMax() int {
	if vrt.Thorough() {
		return 14
	}
	return 10
}

// VH_C20_credentials_exact: the comparison itself. The header is "Basic " + base64 of a text that is the
// configured login:password with ONE byte replaced by any byte, or with one extra byte in front, behind, or
// next to the colon: the handler runs iff the decoded text equals login:password exactly (no case folding, no
// trimming, no prefix match).
func VH_C20_credentials_exact() {
	vrt.Unwind(400)
	login, pass := "Admin", "s3cret"
	right := login + ":" + pass
	text := []byte(right)
	switch vrt.Choice("variation", 4) {
	case 0: // one byte replaced
		i := vrt.Choice("position", len(right))
		text[i] = vrt.Byte("replacement")
	case 1: // one byte in front
		text = append([]byte{vrt.Byte("extra")}, text...)
	case 2: // one byte behind
		text = append(text, vrt.Byte("extra"))
	default: // one byte next to the colon
		b := vrt.Byte("extra")
		text = append(append(append([]byte{}, right[:len(login)+1]...), b), right[len(login)+1:]...)
	}
	auth := "Basic " + base64.StdEncoding.EncodeToString(text)
	called := 0
	next := http.HandlerFunc(func(w http.ResponseWriter, r *http.Request) { called++ })
	h := BasicAuthMiddleware(login, pass)(next)
	w := &vhWriter{hdr: http.Header{}}
	r := &http.Request{Header: http.Header{"Authorization": []string{auth}}}
	h.ServeHTTP(w, r)
	if string(text) == right {
		vrt.Assert(called == 1, "right-credentials-pass")
		vrt.Reach("pass")
		return
	}
	vrt.Assert(called == 0, "handler-not-entered-without-exact-credentials")
	vrt.Assert(w.code == 401 || w.code == 400, "rejected-with-401-or-400")
	vrt.Reach("reject")
}
