//go:build verif

// verif:pkg reader/logql/logql_transpiler_v2/clickhouse_planner
package clickhouse_planner

import (
	"time"

	"github.com/metrico/qryn/reader/logql/logql_transpiler_v2/shared"
	sql "github.com/metrico/qryn/reader/utils/sql_select"
	"github.com/metrico/qryn/zzverif/vrt"
)

// One stored series = its (key,val) rows in the inverted index. The statement built by
// StreamSelectPlanner (shared by LogQL selectors, Prometheus matchers and the profile selectors) is
// evaluated over these rows by walking the condition tree; regex matching is uninterpreted (a symbolic
// truth value per (row, matcher)); the only SQL semantics used are and/or, ==, != on strings, and the
// HAVING bit-set "every matcher clause is satisfied by some row of the series".
type vmRow struct{ key, val string }

// vmClause evaluates And(key == name, valClause) for one row.
func vmClause(c sql.SQLCondition, row vmRow, reHit bool) (bool, bool) {
	if c.GetFunction() != "and" || len(c.GetEntity()) != 2 {
		return false, false
	}
	kc, ok1 := c.GetEntity()[0].(sql.SQLCondition)
	vc, ok2 := c.GetEntity()[1].(sql.SQLCondition)
	if !ok1 || !ok2 || kc.GetFunction() != "==" {
		return false, false
	}
	kl, _ := kc.GetEntity()[0].String(sql.DefaultCtx())
	if kl != "key" {
		return false, false
	}
	name := kc.GetEntity()[1].(*sql.StringVal)
	nameLit, _ := name.String(sql.DefaultCtx())
	keyEq := nameLit == "'"+row.key+"'"
	var valOK bool
	lhs := vc.GetEntity()[0]
	rhs, _ := vc.GetEntity()[1].String(sql.DefaultCtx())
	if m, isMatch := lhs.(*sqlMatch); isMatch {
		_ = m
		if vc.GetFunction() != "==" {
			return false, false
		}
		switch rhs {
		case "1":
			valOK = reHit
		case "0":
			valOK = !reHit
		default:
			return false, false
		}
	} else {
		l, _ := lhs.String(sql.DefaultCtx())
		if l != "val" {
			return false, false
		}
		lit := vc.GetEntity()[1].(*sql.StringVal)
		vl, _ := lit.String(sql.DefaultCtx())
		eq := vl == "'"+row.val+"'" // values in this harness need no escaping
		switch vc.GetFunction() {
		case "==":
			valOK = eq
		case "!=":
			valOK = !eq
		default:
			return false, false
		}
	}
	return keyEq && valOK, true
}

// VH_C17_matchers: 1-2 matchers (= != =~ !~) over a stored series of 0-2 labels. The series is selected
// by the generated statement iff its labels satisfy every matcher (Prometheus semantics: a missing label
// has the empty value).
func VH_C17_matchers() {
	vrt.Unwind(300)
	ops := []string{"=", "!=", "=~", "!~"}
	n := vrt.Len("matchers", 1, 2)
	var names, mops, vals []string
	for i := 0; i < n; i++ {
		names = append(names, []string{"la", "lb"}[vrt.Choice("matcher-label", 2)])
		mops = append(mops, ops[vrt.Choice("operator", 4)])
		b := vrt.Byte("matcher-value")
		vrt.Assume(b >= 'a')
		vrt.Assume(b <= 'c')
		vals = append(vals, string([]byte{b}))
	}
	// the stored series
	var rows []vmRow
	for _, k := range []string{"la", "lb"} {
		if vrt.Bool("series-has-" + k) {
			b := vrt.Byte("series-value")
			vrt.Assume(b >= 'a')
			vrt.Assume(b <= 'c')
			rows = append(rows, vmRow{k, string([]byte{b})})
		}
	}
	p := &StreamSelectPlanner{LabelNames: names, Ops: mops, Values: vals}
	sel, err := p.Process(&shared.PlannerContext{From: time.Unix(1700000000, 0), TimeSeriesGinTableName: "g", CHSqlCtx: sql.DefaultCtx()})
	vrt.Assert(err == nil, "statement-built")
	// HAVING groupBitOr(...) == 2^n-1 over the clauses; regex truth per (row, matcher)
	hv := sel.GetHaving()
	var bits *SqlBitSetAnd
	var hc []sql.SQLCondition
	vwFlattenC17(hv, &hc)
	for _, c := range hc {
		if c.GetFunction() == "==" {
			if b, ok := c.GetEntity()[0].(*SqlBitSetAnd); ok {
				bits = b
				full, _ := c.GetEntity()[1].String(sql.DefaultCtx())
				vrt.Assert((n == 1 && full == "1") || (n == 2 && full == "3"), "having-requires-every-matcher-bit")
			}
		}
	}
	vrt.Assert(bits != nil && len(bits.clauses) == n, "one-clause-per-matcher")
	selected := true
	want := true
	missingSomewhere := false
	for i := 0; i < n; i++ {
		sat := false
		present := false
		var labelVal string
		var hitOfLabel bool
		for r, row := range rows {
			hit := vrt.Bool("regex-hit") // uninterpreted match(val_r, pattern_i)
			ok, known := vmClause(bits.clauses[i], row, hit)
			vrt.Assert(known, "clause-shape-understood")
			if ok {
				sat = true
			}
			if row.key == names[i] {
				present, labelVal, hitOfLabel = true, row.val, hit
			}
			_ = r
		}
		if !sat {
			selected = false
		}
		// reference
		if !present {
			missingSomewhere = true
			emptyHit := vrt.Bool("regex-hit-on-empty-value")
			switch mops[i] {
			case "=":
				want = want && vals[i] == ""
			case "!=":
				want = want && vals[i] != ""
			case "=~":
				want = want && emptyHit
			default:
				want = want && !emptyHit
			}
			continue
		}
		switch mops[i] {
		case "=":
			want = want && labelVal == vals[i]
		case "!=":
			want = want && labelVal != vals[i]
		case "=~":
			want = want && hitOfLabel
		default:
			want = want && !hitOfLabel
		}
	}
	if vrt.KnownFinding("C17-matcher-on-missing-label", missingSomewhere) {
		return
	}
	vrt.Assert(selected == want, "series-selected-iff-every-matcher-is-satisfied")
	vrt.Reach("end")
}

func vwFlattenC17(c sql.SQLCondition, out *[]sql.SQLCondition) {
	if c == nil {
		return
	}
	if c.GetFunction() == "and" {
		for _, e := range c.GetEntity() {
			if sub, ok := e.(sql.SQLCondition); ok {
				vwFlattenC17(sub, out)
			}
		}
		return
	}
	*out = append(*out, c)
}
