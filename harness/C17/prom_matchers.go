//go:build verif

// verif:pkg reader/promql/transpiler
package transpiler

import (
	"time"

	logql_transpiler "github.com/metrico/qryn/reader/logql/logql_transpiler_v2/clickhouse_planner"
	"github.com/metrico/qryn/reader/logql/logql_transpiler_v2/shared"
	sql "github.com/metrico/qryn/reader/utils/sql_select"
	"github.com/metrico/qryn/zzverif/vrt"
	"github.com/prometheus/prometheus/model/labels"
)

// VH_C17_prom_matchers: the Prometheus matcher set of a select is handed to the series-selection planner
// with every matcher's own label, value and operator (= != =~ !~), in order: the statement equals the one
// built directly from (names, ops, values). What that statement selects is decided by VH_C17_matchers.
func VH_C17_prom_matchers() {
	vrt.Unwind(300)
	n := vrt.Len("matchers", 1, 3)
	var ms []*labels.Matcher
	var names, ops, vals []string
	for i := 0; i < n; i++ {
		t := vrt.Choice("matcher-type", 4)
		name := []string{"__name__", "job", "instance"}[vrt.Choice("label", 3)]
		v := "v" + string(rune(48+i)) // distinct concrete values: the mapping, not the escaping, is the subject here
		ms = append(ms, &labels.Matcher{Type: labels.MatchType(t), Name: name, Value: v})
		names = append(names, name)
		vals = append(vals, v)
		ops = append(ops, []string{"=", "!=", "=~", "!~"}[t])
	}
	mk := func() *shared.PlannerContext {
		return &shared.PlannerContext{From: time.Unix(1700000000, 0), To: time.Unix(1700000600, 0),
			TimeSeriesGinTableName: "time_series_gin", CHSqlCtx: sql.DefaultCtx(), Type: 2}
	}
	got, err := fingerprintsQuery(mk(), ms...)
	vrt.Assert(err == nil, "statement-built")
	want, err := logql_transpiler.NewStreamSelectPlanner(names, ops, vals).Process(mk())
	vrt.Assert(err == nil, "reference-statement-built")
	gs, err := got.String(sql.DefaultCtx())
	vrt.Assert(err == nil, "statement-renders")
	ws, err := want.String(sql.DefaultCtx())
	vrt.Assert(err == nil, "reference-renders")
	vrt.Assert(gs == ws, "every-matcher-passed-with-its-own-label-operator-and-value")
	vrt.Reach("end")
}
