//go:build verif

// verif:pkg reader/promql/transpiler
package transpiler

import (
	"time"

	logql_transpiler "github.com/metrico/qryn/reader/logql/logql_transpiler_v2/clickhouse_planner"
	"github.com/metrico/qryn/reader/logql/logql_transpiler_v2/shared"
	sql "github.com/metrico/qryn/reader/utils/sql_select"
	"github.com/metrico/qryn/zzverif/vrt"
	"github.com/prometheus/prometheus/model/labels"
	"github.com/prometheus/prometheus/storage"
)

// VH_C17_prom_matchers: the Prometheus matcher set of a select is handed to the series-selection planner
// with every matcher's own label, value and operator (= != =~ !~), in order: the statement equals the one
// built directly from (names, ops, values). What that statement selects is decided by VH_C17_matchers.
func VH_C17_prom_matchers() {
	vrt.Unwind(300)
	n := vrt.Len("matchers", 1, 3)
	var ms []*labels.Matcher
	var names, ops, vals []string
	for i := 0; i < n; i++ {
		t := vrt.Choice("matcher-type", 4)
		name := []string{"__name__", "job", "instance"}[vrt.Choice("label", 3)]
		v := "v" + string(rune(48+i)) // distinct concrete values: the mapping, not the escaping, is the subject here
		ms = append(ms, &labels.Matcher{Type: labels.MatchType(t), Name: name, Value: v})
		names = append(names, name)
		vals = append(vals, v)
		ops = append(ops, []string{"=", "!=", "=~", "!~"}[t])
	}
	mk := func() *shared.PlannerContext {
		return &shared.PlannerContext{From: time.Unix(1700000000, 0), To: time.Unix(1700000600, 0),
			TimeSeriesGinTableName: "time_series_gin", CHSqlCtx: sql.DefaultCtx(), Type: 2}
	}
	got, err := fingerprintsQuery(mk(), ms...)
	vrt.Assert(err == nil, "statement-built")
	want, err := logql_transpiler.NewStreamSelectPlanner(names, ops, vals).Process(mk())
	vrt.Assert(err == nil, "reference-statement-built")
	gs, err := got.String(sql.DefaultCtx())
	vrt.Assert(err == nil, "statement-renders")
	ws, err := want.String(sql.DefaultCtx())
	vrt.Assert(err == nil, "reference-renders")
	vrt.Assert(gs == ws, "every-matcher-passed-with-its-own-label-operator-and-value")
	vrt.Reach("end")
}

// VH_C17_range_window_filter: for range-vector functions with step > range the raw-sample statement keeps
// only samples that can fall into some evaluation window [t-range, t] (t a multiple of step): a sample at
// offset o = timestamp_ms mod step is kept iff o == 0 or o >= step-range - windows are closed on both sides
// (Prometheus). The offset is symbolic; the filter is read from the condition tree of the statement.
func VH_C17_range_window_filter() {
	vrt.Unwind(300)
	step := []int64{10000, 60000}[vrt.Choice("step-ms", 2)]
	rng := []int64{4000, 5000}[vrt.Choice("range-ms", 2)]
	fn := []string{"rate", "count_over_time", "sum_over_time"}[vrt.Choice("function", 3)]
	off := vrt.Int64("sample-offset-in-step-ms")
	vrt.Assume(off >= 0)
	vrt.Assume(off < step)
	ctx := &shared.PlannerContext{From: time.Unix(1700000001, 0), To: time.Unix(1700000600, 0),
		SamplesTableName: "samples_v3", TimeSeriesGinTableName: "time_series_gin", CHSqlCtx: sql.DefaultCtx(), Type: 2}
	res, err := TranspileLabelMatchers(&storage.SelectHints{Start: 1700000001000, End: 1700000600000, Step: step, Range: rng, Func: fn},
		ctx, &labels.Matcher{Type: labels.MatchEqual, Name: "job", Value: "a"})
	vrt.Assert(err == nil, "statement-built")
	// find or( ==(x,0), >=(x, c) ) over x = "timestamp_ms % step"
	var ors []sql.SQLCondition
	var walk func(c sql.SQLCondition)
	walk = func(c sql.SQLCondition) {
		if c == nil {
			return
		}
		if c.GetFunction() == "or" {
			ors = append(ors, c)
		}
		for _, e := range c.GetEntity() {
			if sub, ok := e.(sql.SQLCondition); ok {
				walk(sub)
			}
		}
	}
	walk(res.Query.GetWhere())
	vrt.Assert(len(ors) == 1, "one-window-filter")
	kept := false
	for _, e := range ors[0].GetEntity() {
		cmp, ok := e.(sql.SQLCondition)
		vrt.Assert(ok && len(cmp.GetEntity()) == 2, "filter-shape-understood")
		lhs, _ := cmp.GetEntity()[0].String(sql.DefaultCtx())
		rhs, _ := cmp.GetEntity()[1].String(sql.DefaultCtx())
		vrt.Assert(lhs == "timestamp_ms % "+vhItoa(step), "filter-is-on-the-offset-in-the-step")
		c := vhAtoi(rhs)
		switch cmp.GetFunction() {
		case "==":
			kept = kept || off == c
		case ">=":
			kept = kept || off >= c
		case ">":
			kept = kept || off > c
		default:
			vrt.Assert(false, "filter-operator-understood")
		}
	}
	want := off == 0 || off >= step-rng
	vrt.Assert(kept == want, "sample-kept-iff-it-can-fall-into-a-closed-window")
	vrt.Reach("end")
}

func vhItoa(n int64) string {
	if n == 0 {
		return "0"
	}
	s := ""
	for n > 0 {
		s = string(rune('0'+n%10)) + s
		n /= 10
	}
	return s
}

func vhAtoi(s string) int64 {
	var n int64
	for i := 0; i < len(s); i++ {
		n = n*10 + int64(s[i]-'0')
	}
	return n
}
