//go:build verif

// verif:pkg reader/logql/logql_transpiler_v2/clickhouse_planner
package clickhouse_planner

import (
	"regexp"
	"time"

	"github.com/metrico/qryn/reader/logql/logql_transpiler_v2/shared"
	sql "github.com/metrico/qryn/reader/utils/sql_select"
	"github.com/metrico/qryn/zzverif/vlib"
	"github.com/metrico/qryn/zzverif/vrt"
)

// VH_C17_regex_semantics: a regex matcher (=~, !~) of a Prometheus select / LogQL selector against a series
// whose label value is symbolic ASCII text. Prometheus (and Loki) anchor matcher regexps at both ends:
// job=~"a" selects job="a" only. The statement hands the pattern to ClickHouse's match(), which searches
// (RE2 partial match - assumption, modelled by an unanchored Go regexp over the same bytes, the engine's
// symbolic matcher). The series must be selected iff ^(?:pattern)$ matches its value.
func VH_C17_regex_semantics() {
	vrt.Unwind(300)
	pats := []string{"a", "a.*", "a|b", ".*a", "(?i)a", ".+", "[ab]c"}
	pat := pats[vrt.Choice("pattern", len(pats))]
	neg := vrt.Bool("negated")
	val := vrt.String("label-value", vrt.Len("label-value-len", 1, 3))
	for i := 0; i < len(val); i++ {
		vrt.Assume(val[i] >= 0x20 && val[i] < 0x7f)
	}
	op := "=~"
	if neg {
		op = "!~"
	}
	p := &StreamSelectPlanner{LabelNames: []string{"job"}, Ops: []string{op}, Values: []string{pat}}
	sel, err := p.Process(&shared.PlannerContext{From: time.Unix(1700000000, 0), TimeSeriesGinTableName: "g", CHSqlCtx: sql.DefaultCtx()})
	vrt.Assert(err == nil, "statement-built")
	var hc []sql.SQLCondition
	vwFlattenC17(sel.GetHaving(), &hc)
	var bits *SqlBitSetAnd
	for _, c := range hc {
		if c.GetFunction() == "==" {
			if b, ok := c.GetEntity()[0].(*SqlBitSetAnd); ok {
				bits = b
			}
		}
	}
	vrt.Assert(bits != nil && len(bits.clauses) == 1, "one-clause-for-the-matcher")
	cl := bits.clauses[0]
	vrt.Assert(cl.GetFunction() == "and" && len(cl.GetEntity()) == 2, "clause-shape-understood")
	vc, ok := cl.GetEntity()[1].(sql.SQLCondition)
	vrt.Assert(ok && vc.GetFunction() == "==", "value-clause-shape-understood")
	m, ok := vc.GetEntity()[0].(*sqlMatch)
	vrt.Assert(ok, "regex-matcher-renders-a-match-call")
	// the pattern text ClickHouse receives: decode the rendered literal
	rendered, err := m.String(sql.DefaultCtx())
	vrt.Assert(err == nil, "match-call-renders")
	toks, lexed := vlib.SQLLex(rendered)
	vrt.Assert(lexed, "match-call-lexes")
	sent := ""
	for _, t := range toks {
		if t.Kind == 'S' {
			sent = t.Text
		}
	}
	rhs, _ := vc.GetEntity()[1].String(sql.DefaultCtx())
	hit := regexp.MustCompile(sent).MatchString(val) // ClickHouse match(val, sent): search semantics
	selected := (rhs == "1" && hit) || (rhs == "0" && !hit)
	anchored := regexp.MustCompile("^(?:" + pat + ")$").MatchString(val) // Prometheus / Loki matcher semantics
	searched := regexp.MustCompile(pat).MatchString(val)
	want := anchored
	if neg {
		want = !want
	}
	// known finding: exactly the (pattern, value) pairs on which searching and anchored matching differ
	if vrt.KnownFinding("C17-regex-matchers-not-anchored", anchored != searched) {
		return
	}
	vrt.Assert(selected == want, "series-selected-iff-the-anchored-regexp-matches-its-value")
	vrt.Reach("end")
}
