//go:build verif

// verif:pkg reader/model
package model

import "github.com/metrico/qryn/zzverif/vrt"

// VH_C17_seek: one Seek(t) on an arbitrary sorted sample array must land on the first sample
// with timestamp >= t, or report the end (Prometheus chunkenc.Iterator contract).
func VH_C17_seek() {
	maxN := 5
	if vrt.Thorough() {
		maxN = 8
	}
	n := vrt.Len("n", 0, maxN)
	s := make([]Sample, n)
	for i := range s {
		s[i].TimestampMs = vrt.Int64("ts")
		if i > 0 {
			vrt.Assume(s[i-1].TimestampMs < s[i].TimestampMs) // ORDER BY fingerprint, timestamp_ms; one sample per ms
		}
	}
	it := (&Series{Samples: s}).Iterator()
	t := vrt.Int64("t")
	if vrt.KnownFinding("C17-seek-empty", n == 0) {
		return
	}
	ok := it.Seek(t)
	want := n
	for i := n - 1; i >= 0; i-- {
		if s[i].TimestampMs >= t {
			want = i
		}
	}
	if vrt.KnownFinding("C17-seek-lower-bound", want < n && want > 0 && s[want].TimestampMs != t) {
		return
	}
	vrt.Assert(ok == (want < n), "seek-reports-end-correctly")
	if ok {
		ts, _ := it.At()
		vrt.Assert(ts == s[want].TimestampMs, "seek-lands-on-first-sample-at-or-after-t")
	}
	vrt.Reach("end")
}
