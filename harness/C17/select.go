//go:build verif

// verif:pkg reader/service
package service

import (
	"context"
	"database/sql"
	"strings"

	"github.com/metrico/cloki-config/config"
	"github.com/metrico/qryn/reader/model"
	"github.com/metrico/qryn/zzverif/vrt"
	"github.com/metrico/qryn/zzverif/vsql"
	"github.com/prometheus/prometheus/model/labels"
	"github.com/prometheus/prometheus/storage"
)

// a database that answers the sample statement with the scripted sample rows and the label statement with the
// scripted label rows
type vqDB struct {
	samples [][]any
	labels  [][]any
}

func (d *vqDB) GetName() string { return "scripted-c17" }
func (d *vqDB) QueryCtx(ctx context.Context, query string, args ...any) (*sql.Rows, error) {
	switch {
	case strings.HasPrefix(query, "SELECT argMax(name"):
		return vsql.Rows([]string{"_name", "_value"}, nil), nil
	case strings.Contains(query, "JSONExtractKeysAndValues"):
		return vsql.Rows([]string{"fingerprint", "labels"}, d.labels), nil
	case strings.Contains(query, "samples.timestamp_ns"):
		return vsql.Rows([]string{"fingerprint", "value", "timestamp_ms"}, d.samples), nil
	}
	return vsql.Rows([]string{"v"}, nil), nil
}
func (d *vqDB) ExecCtx(ctx context.Context, query string, args ...any) error { return nil }
func (d *vqDB) Conn(ctx context.Context) (*sql.Conn, error)                    { return nil, nil }
func (d *vqDB) Begin() (*sql.Tx, error)                                        { return nil, nil }
func (d *vqDB) Close()                                                         {}

// VH_C17_select_grouping: the rows of a Prometheus select (ordered by fingerprint, then time) are handed to
// the engine as one series per fingerprint, under its own label set, with exactly its own samples in
// ascending order - for two series whose label sets are close (the name/value boundary of one label moved, a
// shared prefix), symbolic sample values and timestamps, 1-2 samples per series.
func VH_C17_select_grouping() {
	vrt.Unwind(2000)
	pairs := [][2][][2]string{
		{{{"__name__", "m"}, {"pod", "1x"}}, {{"__name__", "m"}, {"pod1", "x"}}},
		{{{"__name__", "m"}, {"a", "bc"}}, {{"__name__", "m"}, {"ab", "c"}}},
		{{{"__name__", "m"}, {"job", "a"}}, {{"__name__", "m"}, {"job", "b"}}},
	}
	pair := pairs[vrt.Choice("label-sets", len(pairs))]
	fps := []uint64{11, 22}
	db := &vqDB{}
	type smp struct {
		ts int64
		v  float64
	}
	var want [2][]smp
	for s := 0; s < 2; s++ {
		n := vrt.Len("samples", 1, 2)
		last := int64(1000)
		for i := 0; i < n; i++ {
			ts := vrt.Int64("timestamp-ms")
			vrt.Assume(ts > last)
			vrt.Assume(ts < 100000)
			last = ts
			v := vrt.Float64("value")
			vrt.Assume(v == v)
			want[s] = append(want[s], smp{ts, v})
			db.samples = append(db.samples, []any{fps[s], v, ts})
		}
		var lbls [][]interface{}
		for _, l := range pair[s] {
			lbls = append(lbls, []interface{}{l[0], l[1]})
		}
		db.labels = append(db.labels, []any{fps[s], lbls})
	}
	c := &CLokiQuerier{db: &model.DataDatabasesMap{Config: &config.ClokiBaseDataBase{Name: "qryn"}, Session: db}, ctx: context.Background()}
	set := c.Select(false, &storage.SelectHints{Start: 0, End: 200000},
		&labels.Matcher{Type: labels.MatchEqual, Name: "__name__", Value: "m"})
	vrt.Assert(set.Err() == nil, "select-served")
	seen := [2]int{}
	total := 0
	for set.Next() {
		total++
		sr := set.At()
		ls := sr.Labels()
		which := -1
		for s := 0; s < 2; s++ {
			if len(ls) == len(pair[s]) {
				same := true
				for _, l := range pair[s] {
					if ls.Get(l[0]) != l[1] {
						same = false
					}
				}
				if same {
					which = s
				}
			}
		}
		vrt.Assert(which >= 0, "series-carries-one-of-the-stored-label-sets")
		seen[which]++
		it := sr.Iterator()
		k := 0
		for it.Next() {
			ts, v := it.At()
			vrt.Assert(k < len(want[which]), "series-has-no-sample-of-another-series")
			vrt.Assert(ts == want[which][k].ts && v == want[which][k].v, "samples-are-the-series-own-in-ascending-order")
			k++
		}
		vrt.Assert(k == len(want[which]), "every-sample-of-the-series-handed-over")
	}
	vrt.Assert(total == 2 && seen[0] == 1 && seen[1] == 1, "each-series-handed-over-exactly-once")
	vrt.Reach("end")
}
