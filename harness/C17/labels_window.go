//go:build verif

// verif:pkg reader/service
package service

import (
	"time"

	sql "github.com/metrico/qryn/reader/utils/sql_select"
	"github.com/metrico/qryn/zzverif/vlib"
	"github.com/metrico/qryn/zzverif/vrt"
)

func vuFlatten(c sql.SQLCondition, out *[]sql.SQLCondition) {
	if c == nil {
		return
	}
	if c.GetFunction() == "and" {
		for _, e := range c.GetEntity() {
			if sub, ok := e.(sql.SQLCondition); ok {
				vuFlatten(sub, out)
			}
		}
		return
	}
	*out = append(*out, c)
}

// vuDateBounds: the statement bounds `date` below by an inclusive day not later than the UTC day of `from`
// (and at most one day earlier) and above by an inclusive day not earlier than the UTC day of `to`.
func vuDateBounds(sel sql.ISelect, from, to int64, what string) {
	var conds []sql.SQLCondition
	vuFlatten(sel.GetPreWhere(), &conds)
	vuFlatten(sel.GetWhere(), &conds)
	lo, hi := false, false
	for _, c := range conds {
		ent := c.GetEntity()
		if len(ent) != 2 || c.GetFunction() == "IN" {
			continue
		}
		l, _ := ent[0].String(sql.DefaultCtx())
		if l != "date" {
			continue
		}
		r, _ := ent[1].String(sql.DefaultCtx())
		vrt.Assert(len(r) > 2, what+"-date-literal")
		day := vlib.DayOf(r[1 : len(r)-1])
		vrt.Assert(day >= 0, what+"-date-literal-well-formed")
		switch c.GetFunction() {
		case ">=", ">":
			vrt.Assert(day <= from/86400, what+"-index-lower-date-bound-covers-the-window-start")
			vrt.Assert(day >= from/86400-1, what+"-index-lower-date-bound-not-wider-than-one-day")
			vrt.Assert(c.GetFunction() == ">=", what+"-index-lower-date-bound-inclusive")
			lo = true
		case "<=", "<":
			vrt.Assert(day >= to/86400, what+"-index-upper-date-bound-covers-the-window-end")
			vrt.Assert(day <= to/86400+1, what+"-index-upper-date-bound-not-wider-than-one-day")
			vrt.Assert(c.GetFunction() == "<=", what+"-index-upper-date-bound-inclusive")
			hi = true
		}
	}
	vrt.Assert(lo, what+"-index-read-has-a-lower-date-bound")
	vrt.Assert(hi, what+"-index-read-has-an-upper-date-bound")
}

// VH_C17_label_fetch_window_arith (the same obligation is part of C13): a series reaches the engine under its own
// label set only if the label fetch finds its index row: the statement with which a Prometheus select resolves fingerprints to label
// sets reads the series index by a date range covering the hinted window in UTC days, for every window
// (second hints with a sub-second part) and every whole-hour process zone, on both table layouts.
func VH_C17_label_fetch_window_arith() {
	vrt.Unwind(300)
	vrt.SymbolicTZ()
	from := vrt.Int64("start-seconds")
	to := vrt.Int64("end-seconds")
	vrt.Assume(from >= 1000000000)
	vrt.Assume(from < 4000000000) // implied; stated for the engine's interval reasoning
	vrt.Assume(to >= 1000000000)
	vrt.Assume(to < 4000000000)
	vrt.Assume(from <= to)
	// the caller's time.UnixMilli(hint) is taken as given: whole seconds plus a sub-second part
	sub := []int64{0, 1000000, 999000000}[vrt.Choice("sub-second", 3)]
	l := &labelsGetter{DateFrom: time.Unix(from, sub), DateTo: time.Unix(to, sub),
		fingerprintToFetch: map[uint64]bool{7: true}, Distributed: vrt.Bool("clustered")}
	sel := l.getFetchRequest(map[uint64]bool{7: true})
	vuDateBounds(sel, from, to, "label-fetch")
	tbl, _ := sel.GetFrom().String(sql.DefaultCtx())
	if l.Distributed {
		vrt.Assert(tbl == "time_series_dist", "clustered-layout-reads-the-distributed-table")
	} else {
		vrt.Assert(tbl == "time_series", "single-node-layout-reads-the-local-table")
	}
	vrt.Reach("end")
}
