//go:build verif

// verif:pkg reader/model
package model

import "github.com/metrico/qryn/zzverif/vrt"

// VH_C17_seek_seq: any sequence of up to 3/4 Seek/Next calls on one cursor behaves like a reference
// iterator with Prometheus' contract: forward only; Next advances by one; Seek(t) moves to the first
// sample at or after t that is not before the current position (a no-op if the current sample already
// is at or after t); At() returns the sample the cursor stands on.
func VH_C17_seek_seq() {
	maxN, maxOps := 4, 3
	if vrt.Thorough() {
		maxN, maxOps = 5, 4
	}
	n := vrt.Len("n", 0, maxN)
	s := make([]Sample, n)
	for i := range s {
		s[i].TimestampMs = vrt.Int64("ts")
		if i > 0 {
			vrt.Assume(s[i-1].TimestampMs < s[i].TimestampMs)
		}
	}
	it := (&Series{Samples: s}).Iterator()
	ref := -1 // reference position: -1 before the first Next/Seek, n = exhausted
	ops := vrt.Len("ops", 1, maxOps)
	for k := 0; k < ops; k++ {
		var ok, want bool
		if vrt.Bool("op-is-seek") {
			t := vrt.Int64("t")
			ok = it.Seek(t)
			pos := ref
			if pos < 0 {
				pos = 0
			}
			for pos < n && s[pos].TimestampMs < t {
				pos++
			}
			ref = pos
			want = ref < n
		} else {
			ok = it.Next()
			if ref < n {
				ref++
			}
			want = ref < n
		}
		vrt.Assert(ok == want, "call-reports-end-exactly-when-the-reference-does")
		if ok {
			ts, _ := it.At()
			vrt.Assert(ts == s[ref].TimestampMs, "cursor-stands-on-the-reference-sample")
		}
	}
	vrt.Reach("end")
}
