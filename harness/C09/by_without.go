//go:build verif

// verif:pkg reader/logql/logql_transpiler_v2/internal_planner
package internal_planner

import (
	"github.com/metrico/qryn/reader/logql/logql_transpiler_v2/shared"
	"github.com/metrico/qryn/zzverif/vrt"
)

// vwSource sends the given entries in one message.
type vwSource struct{ entries []shared.LogEntry }

func (s vwSource) IsMatrix() bool { return false }
func (s vwSource) Process(ctx *shared.PlannerContext, in chan []shared.LogEntry) (chan []shared.LogEntry, error) {
	ch := make(chan []shared.LogEntry)
	go func() {
		defer close(ch)
		ch <- s.entries
	}()
	return ch, nil
}

func vwSameSet(a, b map[string]string) bool {
	if len(a) != len(b) {
		return false
	}
	for k, v := range a {
		if w, ok := b[k]; !ok || w != v {
			return false
		}
	}
	return true
}

// VH_C09_by_without: the by/without stage keeps exactly the grouped labels and gives two entries the same
// series id if and only if their remaining label sets are equal - also when one of the entries already had
// exactly the grouped labels (its upstream fingerprint comes from ClickHouse and is unrelated).
func VH_C09_by_without() {
	vrt.CheckLeaks()
	vrt.Unwind(64)
	by := vrt.Bool("by")
	// entry 1: {app=a} or {app=a,pod=p}; entry 2 likewise with a nondeterministic app value
	mk := func(tag string) shared.LogEntry {
		l := map[string]string{"app": []string{"a", "b"}[vrt.Choice(tag+"-app", 2)]}
		if vrt.Bool(tag + "-has-pod") {
			l["pod"] = "p" + tag
		}
		return shared.LogEntry{Labels: l, Fingerprint: vrt.Uint64(tag + "-upstream-fingerprint"), Value: 1}
	}
	e1, e2 := mk("e1"), mk("e2")
	p := &ByWithoutPlanner{GenericPlanner: GenericPlanner{vwSource{[]shared.LogEntry{e1, e2}}}, By: by}
	if by {
		p.Labels = []string{"app"}
	} else {
		p.Labels = []string{"pod"}
	}
	out, err := p.Process(&shared.PlannerContext{}, nil)
	vrt.Assert(err == nil, "stage-starts")
	var got []shared.LogEntry
	for b := range out {
		got = append(got, b...)
	}
	vrt.Assert(len(got) == 2, "both-entries-pass")
	for _, e := range got {
		_, hasPod := e.Labels["pod"]
		vrt.Assert(!hasPod, "ungrouped-label-removed")
		_, hasApp := e.Labels["app"]
		vrt.Assert(hasApp, "grouped-label-kept")
	}
	same := vwSameSet(got[0].Labels, got[1].Labels)
	if same {
		vrt.Assert(got[0].Fingerprint == got[1].Fingerprint, "equal-label-sets-are-one-series")
	} else {
		vrt.Assert(got[0].Fingerprint != got[1].Fingerprint, "different-label-sets-are-different-series")
	}
	vrt.Reach("end")
}
