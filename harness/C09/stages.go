//go:build verif

// verif:pkg reader/logql/logql_transpiler_v2/internal_planner
package internal_planner

import (
	"time"

	"github.com/metrico/qryn/reader/logql/logql_parser"
	"github.com/metrico/qryn/reader/logql/logql_transpiler_v2/shared"
	"github.com/metrico/qryn/zzverif/vrt"
)

func vgRun(p shared.RequestProcessor) []shared.LogEntry {
	out, err := p.Process(&shared.PlannerContext{}, nil)
	vrt.Assert(err == nil, "stage-starts")
	var got []shared.LogEntry
	for batch := range out {
		got = append(got, batch...)
	}
	return got
}

// VH_C09_comparison: the in-process comparison stage (`... > 5`) keeps exactly the samples whose value
// satisfies the operator against the threshold, in order - for all float64 values and thresholds (NaN and
// infinities included), all six operators, two samples.
func VH_C09_comparison() {
	vrt.CheckLeaks()
	vrt.Unwind(64)
	ops := []string{">", ">=", "<", "<=", "==", "!="}
	op := ops[vrt.Choice("operator", 6)]
	thr := vrt.Float64("threshold")
	v1, v2 := vrt.Float64("value-1"), vrt.Float64("value-2")
	src := vwSource{[]shared.LogEntry{{Value: v1, TimestampNS: 1}, {Value: v2, TimestampNS: 2}}}
	got := vgRun(&ComparisonPlanner{GenericPlanner: GenericPlanner{src}, Op: op, Val: thr})
	want := func(v float64) bool {
		switch op {
		case ">":
			return v > thr
		case ">=":
			return v >= thr
		case "<":
			return v < thr
		case "<=":
			return v <= thr
		case "==":
			return v == thr
		}
		return v != thr
	}
	k := 0
	for _, e := range []shared.LogEntry{{Value: v1, TimestampNS: 1}, {Value: v2, TimestampNS: 2}} {
		if want(e.Value) {
			vrt.Assert(k < len(got), "kept-sample-present")
			vrt.Assert(got[k].TimestampNS == e.TimestampNS, "kept-samples-in-order")
			k++
		}
	}
	vrt.Assert(k == len(got), "nothing-else-kept")
	vrt.Reach("end")
}

// VH_C09_label_filter: the in-process label filter with string operators over one or two atoms joined by
// and/or: an entry passes iff its labels satisfy the LogQL filter, a missing label counting as the empty
// string; the label values are symbolic bytes.
func VH_C09_label_filter() {
	vrt.CheckLeaks()
	vrt.Unwind(200)
	fns := []string{"=", "!=", "=~", "!~"}
	mkAtom := func(label, lit string) (*logql_parser.SimpleLabelFilter, string) {
		fn := fns[vrt.Choice("atom-operator", 4)]
		s := lit
		if fn == "=~" || fn == "!~" {
			s = lit + ".*" // unanchored regexp: matches when the value contains lit
		}
		return &logql_parser.SimpleLabelFilter{Label: logql_parser.LabelName{Name: label}, Fn: fn,
			StrVal: &logql_parser.QuotedString{Str: `"` + s + `"`}}, fn
	}
	a1, f1 := mkAtom("a", "x")
	filter := &logql_parser.LabelFilter{Head: logql_parser.Head{SimpleHead: a1}}
	two := vrt.Bool("two-atoms")
	joinOr := false
	f2 := ""
	if two {
		var a2 *logql_parser.SimpleLabelFilter
		a2, f2 = mkAtom("b", "y")
		joinOr = vrt.Bool("joined-by-or")
		filter.Op = "and"
		if joinOr {
			filter.Op = "or"
		}
		filter.Tail = &logql_parser.LabelFilter{Head: logql_parser.Head{SimpleHead: a2}}
	}
	labels := map[string]string{}
	va, vb := "", ""
	if vrt.Bool("has-a") {
		va = vrt.String("a-value", vrt.Len("a-len", 0, 2))
		for i := 0; i < len(va); i++ {
			vrt.Assume(va[i] < 0x80) // ASCII (the symbolic regexp matcher works on bytes)
		}
		labels["a"] = va
	}
	if vrt.Bool("has-b") {
		vb = vrt.String("b-value", vrt.Len("b-len", 0, 2))
		for i := 0; i < len(vb); i++ {
			vrt.Assume(vb[i] < 0x80)
		}
		labels["b"] = vb
	}
	contains := func(s string, c byte) bool {
		for i := 0; i < len(s); i++ {
			if s[i] == c {
				return true
			}
		}
		return false
	}
	atom := func(fn, v string, lit byte) bool {
		switch fn {
		case "=":
			return v == string([]byte{lit})
		case "!=":
			return v != string([]byte{lit})
		case "=~":
			return contains(v, lit)
		}
		return !contains(v, lit)
	}
	want := atom(f1, va, 'x')
	if two {
		if joinOr {
			want = want || atom(f2, vb, 'y')
		} else {
			want = want && atom(f2, vb, 'y')
		}
	}
	src := vwSource{[]shared.LogEntry{{Labels: labels, TimestampNS: 7}}}
	got := vgRun(&LabelFilterPlanner{GenericPlanner: GenericPlanner{src}, Filter: filter})
	if want {
		vrt.Assert(len(got) == 1 && got[0].TimestampNS == 7, "matching-entry-kept")
	} else {
		vrt.Assert(len(got) == 0, "non-matching-entry-dropped")
	}
	vrt.Reach("end")
}

// VH_C09_drop: the in-process drop stage removes exactly the named labels (a named label with a value only
// when the value matches) and two entries end up in the same series iff their remaining label sets are equal.
func VH_C09_drop() {
	vrt.CheckLeaks()
	vrt.Unwind(64)
	withValue := vrt.Bool("drop-by-value")
	mk := func(tag string) shared.LogEntry {
		l := map[string]string{"app": []string{"a", "b"}[vrt.Choice(tag+"-app", 2)]}
		if vrt.Bool(tag + "-has-pod") {
			l["pod"] = []string{"p", "q"}[vrt.Choice(tag+"-pod", 2)]
		}
		return shared.LogEntry{Labels: l, Fingerprint: vrt.Uint64(tag + "-upstream-fingerprint")}
	}
	e1, e2 := mk("e1"), mk("e2")
	expect := func(e shared.LogEntry) map[string]string {
		r := map[string]string{}
		for k, v := range e.Labels {
			if k == "pod" && (!withValue || v == "p") {
				continue
			}
			r[k] = v
		}
		return r
	}
	w1, w2 := expect(e1), expect(e2)
	changed1, changed2 := len(w1) != len(e1.Labels), len(w2) != len(e2.Labels)
	p := &DropPlanner{GenericPlanner: GenericPlanner{vwSource{[]shared.LogEntry{e1, e2}}}, Labels: []string{"pod"}, Values: []string{""}}
	if withValue {
		p.Values = []string{"p"}
	}
	got := vgRun(p)
	vrt.Assert(len(got) == 2, "both-entries-kept")
	vrt.Assert(vwSameSet(got[0].Labels, w1) && vwSameSet(got[1].Labels, w2), "exactly-the-named-labels-removed")
	if changed1 && changed2 {
		vrt.Assert((got[0].Fingerprint == got[1].Fingerprint) == vwSameSet(w1, w2), "same-series-iff-same-remaining-labels")
	}
	vrt.Reach("end")
}

// VH_C09_line_filter: the in-process line filter keeps exactly the lines the LogQL filter admits (|= contains,
// != does not contain, |~ regexp matches, !~ does not match), entries carrying an error pass through - for
// symbolic ASCII lines and a filter text from a table.
func VH_C09_line_filter() {
	vrt.CheckLeaks()
	vrt.Unwind(200)
	op := []string{"|=", "!=", "|~", "!~"}[vrt.Choice("operator", 4)]
	line := vrt.String("line", vrt.Len("line-len", 0, 3))
	for i := 0; i < len(line); i++ {
		vrt.Assume(line[i] < 0x80)
	}
	val := "ab"
	if op == "|~" || op == "!~" {
		val = "a+b"
	}
	// reference: "ab" is contained / a+b matches iff some 'b' is directly preceded by an 'a'
	has := false
	for i := 0; i+1 < len(line); i++ {
		if line[i] == 'a' && line[i+1] == 'b' {
			has = true
		}
	}
	want := has
	if op == "!=" || op == "!~" {
		want = !has
	}
	src := vwSource{[]shared.LogEntry{{Message: line, TimestampNS: 3}}}
	got := vgRun(&LineFilterPlanner{GenericPlanner: GenericPlanner{src}, Op: op, Val: val})
	if want {
		vrt.Assert(len(got) == 1 && got[0].TimestampNS == 3, "admitted-line-kept")
	} else {
		vrt.Assert(len(got) == 0, "rejected-line-dropped")
	}
	vrt.Reach("end")
}

// VH_C09_agg_op: the in-process vector aggregation (sum/min/max/avg/count over a by()-grouped series) over
// two samples with symbolic float64 values and timestamps on and next to the bucket boundaries of an aligned two-bucket window:
// every bucket that received a sample yields one point at the bucket start with the LogQL value, empty
// buckets yield none.
func VH_C09_agg_op() {
	vrt.CheckLeaks()
	vrt.Unwind(200)
	fn := []string{"sum", "min", "max", "avg", "count"}[vrt.Choice("function", 5)]
	v1, v2 := vrt.Float64("value-1"), vrt.Float64("value-2")
	for _, v := range []float64{v1, v2} {
		vrt.Assume(v == v)
		vrt.Assume(v > -1e300)
		vrt.Assume(v < 1e300)
	}
	const from, dur = int64(100), int64(5)
	// timestamps from a table of bucket-boundary values (symbolic timestamps put a 64-bit division by the
	// bucket width in front of every query, which no back end finishes)
	offs := []int64{0, 4999999999, 5000000000, 9999999999}
	o1 := vrt.Choice("timestamp-1", 4)
	o2 := o1 + vrt.Choice("timestamp-2-steps-later", 4-o1)
	t1, t2 := from*1000000000+offs[o1], from*1000000000+offs[o2]
	b1, b2 := 0, 0
	if t1 >= (from+dur)*1000000000 {
		b1 = 1
	}
	if t2 >= (from+dur)*1000000000 {
		b2 = 1
	}
	p := &AggOpPlanner{Func: fn}
	p.Duration = time.Duration(dur) * time.Second
	p.Main = vwSource{[]shared.LogEntry{{Fingerprint: 9, TimestampNS: t1, Value: v1}, {Fingerprint: 9, TimestampNS: t2, Value: v2}}}
	out, err := p.Process(&shared.PlannerContext{From: time.Unix(from, 0), To: time.Unix(from+2*dur, 0)}, nil)
	vrt.Assert(err == nil, "stage-starts")
	var got []shared.LogEntry
	for batch := range out {
		got = append(got, batch...)
	}
	one := func(v float64) float64 {
		if fn == "count" {
			return 1
		}
		return v
	}
	if b1 == b2 {
		vrt.Assert(len(got) == 1, "one-point-for-the-one-non-empty-bucket")
		vrt.Assert(got[0].TimestampNS == (from+int64(b1)*dur)*1000000000, "point-at-the-bucket-start")
		g := got[0].Value
		switch fn {
		case "sum":
			w := float64(0)
			w += v1
			w += v2
			vrt.Assert(g == w, "sum")
		case "min":
			vrt.Assert(vrt.All(g <= v1, g <= v2, vrt.Any(g == v1, g == v2)), "min")
		case "max":
			vrt.Assert(vrt.All(g >= v1, g >= v2, vrt.Any(g == v1, g == v2)), "max")
		case "avg":
			w := float64(0)
			w += v1
			w += v2
			vrt.Assert(g == w/2, "avg")
		case "count":
			vrt.Assert(g == 2, "count")
		}
	} else {
		vrt.Assert(len(got) == 2, "one-point-per-non-empty-bucket")
		vrt.Assert(got[0].TimestampNS == from*1000000000 && got[1].TimestampNS == (from+dur)*1000000000, "points-at-the-bucket-starts")
		vrt.Assert(got[0].Value == one(v1) && got[1].Value == one(v2), "single-sample-buckets-carry-the-sample")
	}
	vrt.Reach("end")
}

// VH_C09_json_parser: the in-process parameterless `| json` stage over valid JSON object lines of nesting
// depth 1-3 with symbolic leaf text, a numeric leaf, an array (skipped) and a key that needs sanitising:
// every scalar leaf becomes the label named by the underscore-joined path from the root (sanitised), with
// the leaf text as value; labels the entry already had are kept; the series id is the hash of the final set.
func VH_C09_json_parser() {
	vrt.CheckLeaks()
	vrt.Unwind(4000)
	vrt.ConcreteUnwind(400000)
	leaf := vrt.Byte("leaf-byte")
	vrt.Assume(leaf >= 0x20 && leaf < 0x7f && leaf != '"' && leaf != '\\')
	ls := string([]byte{leaf})
	depth := 1 + vrt.Choice("nesting-depth", 3)
	var line, wantKey string
	switch depth {
	case 1:
		line, wantKey = `{"req":"`+ls+`"`, "req"
	case 2:
		line, wantKey = `{"req":{"hdr":"`+ls+`"}`, "req_hdr"
	default:
		line, wantKey = `{"req":{"hdr":{"host":"`+ls+`"}}`, "req_hdr_host"
	}
	withExtras := vrt.Bool("numeric-array-and-dashed-key")
	if withExtras {
		line += `,"n":42,"arr":[1,{"z":"q"}],"x-y":{"k.v":"w"}`
	}
	line += `}`
	src := vwSource{[]shared.LogEntry{{Message: line, Labels: map[string]string{"app": "x"}, TimestampNS: 5}}}
	got := vgRun(&ParserPlanner{GenericPlanner: GenericPlanner{src}, Op: "json"})
	vrt.Assert(len(got) == 1 && got[0].TimestampNS == 5, "line-kept")
	want := map[string]string{"app": "x", wantKey: ls}
	if withExtras {
		want["n"] = "42"
		want["x_y_k_v"] = "w"
	}
	vrt.Assert(vwSameSet(got[0].Labels, want), "labels-are-the-underscore-joined-paths-of-the-scalar-leaves")
	vrt.Assert(got[0].Fingerprint == fingerprint(want), "series-id-of-the-final-label-set")
	vrt.Reach("end")
}

// vwBatches sends the given batches one channel message each.
type vwBatches struct{ batches [][]shared.LogEntry }

func (s vwBatches) IsMatrix() bool { return false }
func (s vwBatches) Process(ctx *shared.PlannerContext, in chan []shared.LogEntry) (chan []shared.LogEntry, error) {
	ch := make(chan []shared.LogEntry)
	go func() {
		defer close(ch)
		for _, b := range s.batches {
			ch <- b
		}
	}()
	return ch, nil
}

// VH_C09_batches_kept: stages that re-pack entries (line_format, label filter, line filter, comparison) over
// an upstream delivering 2-3 channel messages of 1-2 entries: a consumer that keeps every received message
// and reads them after the stage has finished finds every entry once, in order, with its own (formatted)
// line - a later message never overwrites an earlier one.
func VH_C09_batches_kept() {
	vrt.CheckLeaks()
	vrt.Unwind(400)
	nb := vrt.Len("messages", 2, 3)
	var batches [][]shared.LogEntry
	var want []string
	k := 0
	for b := 0; b < nb; b++ {
		var batch []shared.LogEntry
		for e, ne := 0, vrt.Len("entries-in-message", 1, 2); e < ne; e++ {
			msg := "m" + string(rune('a'+k))
			batch = append(batch, shared.LogEntry{Message: msg, Labels: map[string]string{"lvl": "i"}, Value: 1, TimestampNS: int64(k)})
			k++
		}
		batches = append(batches, batch)
	}
	src := vwBatches{batches}
	var p shared.RequestProcessor
	stage := vrt.Choice("stage", 4)
	switch stage {
	case 0:
		p = &LineFormatterPlanner{GenericPlanner: GenericPlanner{src}, Template: "{{.lvl}}|{{._entry}}"}
	case 1:
		p = &LineFilterPlanner{GenericPlanner: GenericPlanner{src}, Op: "|=", Val: "m"}
	case 2:
		p = &ComparisonPlanner{GenericPlanner: GenericPlanner{src}, Op: ">", Val: 0}
	default:
		p = &DropPlanner{GenericPlanner: GenericPlanner{src}, Labels: []string{"nope"}, Values: []string{""}}
	}
	for i := 0; i < k; i++ {
		m := "m" + string(rune('a'+i))
		if stage == 0 {
			m = "i|" + m
		}
		want = append(want, m)
	}
	out, err := p.Process(&shared.PlannerContext{}, nil)
	vrt.Assert(err == nil, "stage-starts")
	var kept [][]shared.LogEntry
	for batch := range out {
		kept = append(kept, batch) // keep the message, look at it later
	}
	i := 0
	for _, batch := range kept {
		for _, e := range batch {
			vrt.Assert(i < len(want), "no-extra-entry")
			vrt.Assert(e.Message == want[i] && e.TimestampNS == int64(i), "every-entry-once-in-order-with-its-own-line")
			i++
		}
	}
	vrt.Assert(i == len(want), "no-entry-lost")
	vrt.Reach("end")
}

// VH_C09_logfmt_parser: the in-process logfmt extraction (kr/logfmt executed from SSA), without and with
// requested fields (`| logfmt status="http_status"`), over a line of two key=value pairs whose second key
// contains a symbolic byte (letters, digits, '_', '.', '-'): without parameters every key becomes its sanitised
// label; with parameters exactly the requested keys - compared byte for byte, not after sanitising - fill their
// labels.
func VH_C09_logfmt_parser() {
	vrt.Unwind(2000)
	vrt.ConcreteUnwind(200000)
	kb := vrt.Byte("key-byte")
	vrt.Assume((kb >= 'a' && kb <= 'z') || kb == '_' || kb == '.' || kb == '-' || (kb >= '0' && kb <= '9'))
	key2 := "http" + string([]byte{kb}) + "status"
	vb := vrt.Byte("value-byte")
	vrt.Assume(vb >= '0' && vb <= '9')
	line := "http_status=500 " + key2 + "=20" + string([]byte{vb})
	labels := map[string]string{"app": "x"}
	p := &ParserPlanner{Op: "logfmt"}
	withParams := vrt.Bool("requested-fields")
	if withParams {
		p.logfmtFields = map[string]string{"http_status": "status"}
	}
	got, err := p.logfmt(line, &labels)
	vrt.Assert(err == nil, "line-parses")
	if withParams {
		want := "500"
		if kb == '_' {
			want = "20" + string([]byte{vb}) // the same key twice: the later pair wins
		}
		vrt.Assert(got["status"] == want, "requested-label-filled-from-exactly-the-requested-key")
		vrt.Assert(len(got) == 2 && got["app"] == "x", "nothing-else-extracted")
	} else {
		san := "http_status"
		if (kb >= 'a' && kb <= 'z') || (kb >= '0' && kb <= '9') {
			san = "http" + string([]byte{kb}) + "status"
		}
		vrt.Assert(got[san] == "20"+string([]byte{vb}), "every-key-becomes-its-sanitised-label")
		vrt.Assert(got["app"] == "x", "existing-labels-kept")
	}
	vrt.Reach("end")
}
