//go:build verif

// verif:pkg reader/logql/logql_transpiler_v2/internal_planner
package internal_planner

import (
	"github.com/metrico/qryn/reader/logql/logql_transpiler_v2/shared"
	"github.com/metrico/qryn/zzverif/vrt"
)

// vlSource sends n entries (timestamps 0..n-1) cut into channel messages at nondeterministic points.
type vlSource struct{ n int }

func (s vlSource) IsMatrix() bool { return false }
func (s vlSource) Process(ctx *shared.PlannerContext, in chan []shared.LogEntry) (chan []shared.LogEntry, error) {
	ch := make(chan []shared.LogEntry)
	go func() {
		defer close(ch)
		var batch []shared.LogEntry
		for i := 0; i < s.n; i++ {
			if i > 0 && vrt.Bool("cut-message-here") {
				ch <- batch
				batch = nil
			}
			batch = append(batch, shared.LogEntry{TimestampNS: int64(i), Fingerprint: 1, Message: "m"})
		}
		ch <- batch
	}()
	return ch, nil
}

// VH_C09_limit: the in-process limit stage returns the first min(limit, n) entries in order, whatever the
// batching of entries into channel messages; limit 0 means "no limit", as on the SQL path
// (clickhouse_planner.MainLimitPlanner adds no LIMIT clause for 0).
func VH_C09_limit() {
	vrt.CheckLeaks()
	vrt.Unwind(64)
	n := vrt.Len("entries", 0, 3)
	limit := vrt.Len("limit", 0, 4)
	if vrt.KnownFinding("C09-limit-zero-means-nothing", limit == 0 && n > 0) {
		return
	}
	cancelled := 0
	ctx := &shared.PlannerContext{Limit: int64(limit), CancelCtx: func() { cancelled++ }}
	p := &LimitPlanner{GenericPlanner{vlSource{n}}}
	out, err := p.Process(ctx, nil)
	vrt.Assert(err == nil, "stage-starts")
	var got []int64
	for b := range out {
		for _, e := range b {
			vrt.Assert(e.Err == nil, "no-error-entry")
			got = append(got, e.TimestampNS)
		}
	}
	want := n
	if limit != 0 && limit < n {
		want = limit
	}
	vrt.Assert(len(got) == want, "limit-admits-min-limit-n-entries-and-zero-means-unlimited")
	for i, ts := range got {
		vrt.Assert(ts == int64(i), "entries-kept-in-order-from-the-first")
	}
	vrt.Reach("end")
}

// VH_C09_series_identity: distinct label sets stay distinct series in the in-process engine: the series
// id is a hash of the label set, so two different one-label sets must at least hand DIFFERENT bytes to
// the hash. The label text "k"+"v" is split at two different points of the same 3..4-byte text.
func VH_C09_series_identity() {
	text := []string{"abc", "a=bc", "xx\x00y"}[vrt.Choice("text", 3)]
	i := vrt.Len("split-1", 1, len(text)-1)
	j := vrt.Len("split-2", 1, len(text)-1)
	vrt.Assume(i != j)
	if vrt.KnownFinding("C09-fingerprint-concatenates-name-and-value", true) {
		return
	}
	a := fingerprint(map[string]string{text[:i]: text[i:]})
	b := fingerprint(map[string]string{text[:j]: text[j:]})
	vrt.Assert(a != b, "different-label-sets-get-different-series-ids")
	vrt.Reach("end")
}
