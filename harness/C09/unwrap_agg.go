//go:build verif

// verif:pkg reader/logql/logql_transpiler_v2/internal_planner
package internal_planner

import (
	"time"

	"github.com/metrico/qryn/reader/logql/logql_transpiler_v2/shared"
	"github.com/metrico/qryn/zzverif/vrt"
)

// VH_C09_unwrap_agg: the in-process range aggregations over unwrapped values compute the LogQL
// definition for two entries with arbitrary (finite) float values falling into the same range bucket.
func VH_C09_unwrap_agg() {
	fns := []string{"sum_over_time", "max_over_time", "min_over_time", "first_over_time", "last_over_time"}
	fn := fns[vrt.Choice("range-function", len(fns))]
	v1, v2 := vrt.Float64("value-1"), vrt.Float64("value-2")
	vrt.Assume(v1 == v1) // not NaN
	vrt.Assume(v2 == v2)
	vrt.Assume(v1 > -1e300)
	vrt.Assume(v1 < 1e300)
	vrt.Assume(v2 > -1e300)
	vrt.Assume(v2 < 1e300)
	if vrt.KnownFinding("C09-min-over-time-computes-max", fn == "min_over_time") {
		return
	}
	if vrt.KnownFinding("C09-first-over-time-tests-value", fn == "first_over_time" && v1 == 0) {
		return
	}
	l := &UnwrapAggPlanner{Function: fn}
	l.Duration = 5 * time.Second
	ctx := &shared.PlannerContext{From: time.Unix(100, 0), To: time.Unix(105, 0)}
	st := &aggOpStream{values: make([]float64, 2)}
	l.addValue(ctx, &shared.LogEntry{TimestampNS: 101000000000, Value: v1}, st)
	l.addValue(ctx, &shared.LogEntry{TimestampNS: 103000000000, Value: v2}, st)
	l.finalize(ctx, st)
	got := st.values[0]
	vrt.Assert(st.values[1] > 0, "bucket-marked-non-empty")
	switch fn {
	case "sum_over_time":
		want := float64(0)
		want += v1
		want += v2
		vrt.Assert(got == want, "sum-over-time") // same association as a left fold from zero
	case "max_over_time":
		vrt.Assert(vrt.All(got >= v1, got >= v2, vrt.Any(got == v1, got == v2)), "max-over-time")
	case "min_over_time":
		vrt.Assert(vrt.All(got <= v1, got <= v2, vrt.Any(got == v1, got == v2)), "min-over-time")
	case "first_over_time":
		vrt.Assert(got == v1, "first-over-time")
	case "last_over_time":
		vrt.Assert(got == v2, "last-over-time")
	}
	vrt.Reach("end")
}
