//go:build verif

// verif:pkg writer/utils/unmarshal
package unmarshal

import (
	"github.com/ClickHouse/ch-go/proto"
	"github.com/metrico/qryn/writer/model"
	"github.com/metrico/qryn/writer/utils/numbercache"
	"github.com/metrico/qryn/zzverif/vrt"
)

// vhSetCache is the series cache with exact set semantics (fastcache may evict, never invent).
type vhSetCache struct{ seen map[uint64]bool }

func (c *vhSetCache) CheckAndSet(key uint64) bool {
	if c.seen[key] {
		return true
	}
	c.seen[key] = true
	return false
}
func (c *vhSetCache) DB(db string) numbercache.ICache[uint64] { return c }

type vhIndexKey struct {
	day int64
	fp  uint64
}

// VH_C04_history: a history of push requests of one series over two days, with a cache reset at a
// nondeterministic point and symbolic outcomes of the series and sample INSERTs. The handler acknowledges
// a request iff all its inserts succeeded (C01) and clients retry failed requests. Every acknowledged
// sample must have its (day, fingerprint) index row in some successful series INSERT.
func VH_C04_history() {
	vrt.Unwind(300)
	vhSetFingerprintType(1)
	cache := &vhSetCache{seen: map[uint64]bool{}}
	pd := &parserDoer{ctx: &ParserCtx{fpCache: cache}}
	indexed := map[vhIndexKey]bool{}
	// 2024-03-09 23:59:59Z and 2024-03-10 00:00:01Z and 12:00Z
	instants := []int64{1710028799000000000, 1710028801000000000, 1710072000000000000}
	steps := 3
	if vrt.Thorough() {
		steps = 4
	}
	ts := instants[0]
	retry := false
	for s := 0; s < steps; s++ {
		if !retry {
			ts = instants[vrt.Choice("request-instant", 3)]
		}
		if vrt.Bool("cache-reset-before-request") {
			cache.seen = map[uint64]bool{}
		}
		pd.tsSpl = newTimeSeriesAndSamples(make(chan *model.ParserResponse, 4), "")
		err := pd.onEntries([][]string{{"job", "x"}}, []int64{ts}, []string{"line"}, []float64{0}, []uint8{1})
		vrt.Assert(err == nil, "entry-accepted")
		seriesOK := vrt.Bool("series-insert-succeeds")
		samplesOK := vrt.Bool("samples-insert-succeeds")
		hasSeriesRows := len(pd.tsSpl.ts.MDate) > 0
		if hasSeriesRows && seriesOK {
			var col proto.ColDate
			for i, d := range pd.tsSpl.ts.MDate {
				col.Append(d)
				indexed[vhIndexKey{int64(col[i]), pd.tsSpl.ts.MFingerprint[i]}] = true
			}
		}
		acked := samplesOK && (seriesOK || !hasSeriesRows)
		if vrt.KnownFinding("C04-series-cache-marked-before-insert-outcome", hasSeriesRows && !seriesOK) {
			return
		}
		if acked {
			day := (ts / 1000000000) / 86400
			fp := pd.tsSpl.spl.MFingerprint[0]
			vrt.Assert(indexed[vhIndexKey{day, fp}], "acknowledged-sample-has-an-index-row-for-its-day")
			retry = false
		} else {
			retry = true // the client sends the same request again
		}
	}
	vrt.Reach("end")
}

// VH_C04_series_rows_per_type: one stream whose entries are of symbolic sample types (log, metric, both) over
// one or two days, not yet announced: the series rows emitted for it cover, for every day and every entry, a
// row whose type the reader's filter "type IN (<api type>, 0)" finds - a row of the entry's own type or of
// type 0 ("both") for that day.
func VH_C04_series_rows_per_type() {
	vrt.Unwind(300)
	vhSetFingerprintType(1)
	cache := &vhSetCache{seen: map[uint64]bool{}}
	pd := &parserDoer{ctx: &ParserCtx{fpCache: cache}}
	pd.tsSpl = newTimeSeriesAndSamples(make(chan *model.ParserResponse, 4), "")
	instants := []int64{1710028799000000000, 1710028801000000000} // either side of a UTC midnight
	n := vrt.Len("entries", 1, 3)
	var tss []int64
	var tps []uint8
	var msgs []string
	var vals []float64
	for i := 0; i < n; i++ {
		tss = append(tss, instants[vrt.Choice("entry-instant", 2)])
		tps = append(tps, uint8(vrt.Choice("entry-type", 3))) // 0 both, 1 log, 2 metric
		msgs = append(msgs, "l")
		vals = append(vals, 1)
	}
	err := pd.onEntries([][]string{{"job", "x"}}, tss, msgs, vals, tps)
	vrt.Assert(err == nil, "entries-accepted")
	var col proto.ColDate
	for _, d := range pd.tsSpl.ts.MDate {
		col.Append(d)
	}
	for i := 0; i < n; i++ {
		day := (tss[i] / 1000000000) / 86400
		found := false
		for k := range pd.tsSpl.ts.MDate {
			if int64(col[k]) == day && (pd.tsSpl.ts.MType[k] == tps[i] || pd.tsSpl.ts.MType[k] == 0) {
				found = true
			}
		}
		vrt.Assert(found, "entry-has-a-series-row-of-its-type-for-its-day")
	}
	vrt.Reach("end")
}
