//go:build verif

// verif:pkg writer/utils/unmarshal
package unmarshal

import (
	"time"

	"github.com/metrico/qryn/writer/model"
	"github.com/metrico/qryn/writer/utils/numbercache"

	"github.com/ClickHouse/ch-go/proto"
	"github.com/metrico/qryn/zzverif/vrt"
)

// VH_C04_day_arith: the index day stored for a sample (writer: time.Unix(ts/1e9,0).Truncate(24h) appended
// to a ch-go Date column, i.e. proto.ToDate) is a day the read side searches: not before the reader's
// lower date bound UTC-date(from-30min) for any from <= ts, and not after the UTC day of the sample.
// The process time zone of the writer is symbolic.
func VH_C04_day_arith() {
	tz := vrt.SymbolicTZ()
	// nanosecond instants = symbolic whole seconds + a sub-second part from a table: the code's divisions by
	// 10^9 cancel syntactically
	sec := vrt.Int64("sample-seconds")
	vrt.Assume(sec >= 0)
	vrt.Assume(sec < 4000000000) // < year 2096
	fromSec := vrt.Int64("query-from-seconds")
	vrt.Assume(fromSec >= 0)
	vrt.Assume(fromSec < 4000000000)
	vrt.Assume(fromSec <= sec)
	sub := []int64{0, 1, 999999999}[vrt.Choice("sub-second-part", 3)]
	ts := sec*1000000000 + sub
	from := fromSec * 1000000000
	if vrt.KnownFinding("C04-index-day-west-of-utc", tz < 0) {
		return
	}
	// writer side: the real onEntries computes the index date of the series row, the real ch-go Date column
	// converts it to the stored day number (this is what timeSeriesInsertService appends)
	vhSetFingerprintType(1)
	pd := &parserDoer{ctx: &ParserCtx{fpCache: vhNeverSeen{}}}
	pd.tsSpl = newTimeSeriesAndSamples(make(chan *model.ParserResponse, 4), "")
	err := pd.onEntries([][]string{{"job", "x"}}, []int64{ts}, []string{"line"}, []float64{0}, []uint8{1})
	vrt.Assert(err == nil, "entry-accepted")
	vrt.Assert(len(pd.tsSpl.ts.MDate) == 1, "one-series-row-for-the-sample-day")
	var col proto.ColDate
	col.Append(pd.tsSpl.ts.MDate[0])
	stored := int64(col[0])
	// reader side lower bound: FormatFromDate(from) = from.UTC().Add(-30m).Format("2006-01-02")
	lb := time.Unix(from/1000000000, 0).UTC().Add(time.Minute * -30) // sub-second part is irrelevant for the day
	lowerDay := lb.Unix() / 86400
	if lb.Unix() < 0 {
		lowerDay = -1
	}
	sampleDay := (ts / 1000000000) / 86400
	vrt.Assert(stored >= lowerDay, "stored-index-day-not-before-reader-lower-bound")
	vrt.Assert(stored <= sampleDay, "stored-index-day-not-after-sample-day")
	vrt.Reach("end")
}

// vhNeverSeen is a series cache in which nothing has been seen yet (every series row is emitted).
type vhNeverSeen struct{}

func (vhNeverSeen) CheckAndSet(key uint64) bool            { return false }
func (vhNeverSeen) DB(db string) numbercache.ICache[uint64] { return vhNeverSeen{} }
