//go:build verif

// verif:pkg writer/utils/unmarshal
package unmarshal

import (
	clconfig "github.com/metrico/cloki-config"
	clbase "github.com/metrico/cloki-config/config"
	"github.com/metrico/qryn/writer/config"
	"github.com/metrico/qryn/zzverif/vrt"
)

func vhSetFingerprintType(t uint) {
	config.Cloki = &clconfig.ClokiConfig{Setting: &clbase.ClokiBaseSettingServer{}}
	config.Cloki.Setting.FingerPrintType = t
}

// VH_C04_perm: the series fingerprint is independent of the order in which a protocol lists the labels,
// for both configured fingerprint types, for ANY per-label hash function (city.CH64 on symbolic bytes is
// an uninterpreted function: the proof holds for every hash).
func VH_C04_perm() {
	vhSetFingerprintType(uint(vrt.Choice("fingerprint-type", 2)))
	maxN := 3
	if vrt.Thorough() {
		maxN = 4
	}
	n := vrt.Len("labels", 1, maxN)
	lbls := make([][]string, n)
	for i := range lbls {
		lbls[i] = []string{vrt.String("name", 1), vrt.String("value", 2)}
	}
	// a permutation chosen by successive picks
	rest := make([][]string, n)
	copy(rest, lbls)
	var perm [][]string
	for len(rest) > 0 {
		k := vrt.Choice("pick", len(rest))
		perm = append(perm, rest[k])
		rest = append(append([][]string{}, rest[:k]...), rest[k+1:]...)
	}
	a := fingerprintLabels(lbls)
	b := fingerprintLabels(perm)
	vrt.Assert(a == b, "fingerprint-independent-of-label-order")
	vrt.Reach("end")
}
