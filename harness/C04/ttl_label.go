//go:build verif

// verif:pkg writer/utils/unmarshal
package unmarshal

import (
	"github.com/metrico/qryn/writer/model"
	"github.com/metrico/qryn/zzverif/vrt"
)

// VH_C04_ttl_label_reuse: decoders that split one series over several callbacks (remote-write flush,
// Influx fields) call onEntries repeatedly with the SAME label slice. The fingerprint and label document
// depend only on the label set, not on the request history: the second call must see the same series,
// whatever the position of the __ttl_days__ pseudo-label (it is stripped from the stored labels).
func VH_C04_ttl_label_reuse() {
	vrt.Unwind(300)
	vhSetFingerprintType(1)
	pos := vrt.Len("ttl-label-position", 0, 2)
	v := vrt.String("label-value", 1)
	base := [][]string{{"job", v}, {"zone", "z"}}
	var labels [][]string
	for i := 0; i <= len(base); i++ {
		if i == pos {
			labels = append(labels, []string{"__ttl_days__", "7"})
		}
		if i < len(base) {
			labels = append(labels, base[i])
		}
	}
	pd := &parserDoer{ctx: &ParserCtx{fpCache: vhNeverSeen{}}}
	pd.tsSpl = newTimeSeriesAndSamples(make(chan *model.ParserResponse, 4), "")
	call := func(ts int64) {
		err := pd.onEntries(labels, []int64{ts}, []string{"m"}, []float64{0}, []uint8{1})
		vrt.Assert(err == nil, "entries-accepted")
	}
	call(1700000000000000000)
	call(1700000001000000000)
	fp := pd.tsSpl.spl.MFingerprint
	vrt.Assert(len(fp) == 2, "two-samples")
	vrt.Assert(fp[0] == fp[1], "same-label-set-same-fingerprint-on-every-call")
	vrt.Assert(fp[0] == fingerprintLabels(base), "pseudo-label-not-part-of-the-series-identity")
	docs := pd.tsSpl.ts.MLabels
	vrt.Assert(len(docs) == 2, "series-row-per-call")
	vrt.Assert(docs[0] == docs[1], "same-label-document-on-every-call")
	vrt.Assert(docs[0] == encodeLabels(base), "label-document-is-the-label-set-without-the-pseudo-label")
	vrt.Assert(pd.tsSpl.spl.MTTLDays[0] == 7 && pd.tsSpl.spl.MTTLDays[1] == 7, "ttl-taken-from-the-pseudo-label-on-every-call")
	vrt.Reach("end")
}
