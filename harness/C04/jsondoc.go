//go:build verif

// verif:pkg writer/utils/unmarshal
package unmarshal

import (
	"github.com/metrico/qryn/zzverif/vlib"
	"github.com/metrico/qryn/zzverif/vrt"
)

// VH_C04_jsondoc: the label document stored for a series is valid JSON (RFC 8259) and decodes to exactly
// the label pairs, for any bytes in the values.
func VH_C04_jsondoc() {
	vrt.Unwind(300)
	maxLen := 2
	if vrt.Thorough() {
		maxLen = 3
	}
	v := vrt.String("value", vrt.Len("value-len", 0, maxLen))
	// any byte; the reference lexer passes bytes >= 0x80 through unchanged (UTF-8 validity of the
	// document for values that are not valid UTF-8 is outside the claim: JSON cannot carry them)
	ctl := false
	for i := 0; i < len(v); i++ {
		if v[i] < 0x20 && v[i] != '\n' && v[i] != '\r' && v[i] != '\t' && v[i] != '\b' && v[i] != '\f' {
			ctl = true
		}
		if v[i] == 0x7f {
			ctl = true
		}
	}
	if vrt.KnownFinding("C04-labels-json-control-bytes", ctl) {
		return
	}
	doc := encodeLabels([][]string{{"job", v}, {"a", "b"}})
	pairs, ok := vlib.JSONFlatObject(doc)
	vrt.Assert(ok, "label-document-is-valid-json")
	vrt.Assert(len(pairs) == 2, "label-document-has-both-pairs")
	vrt.Assert(pairs[0][0] == "job", "first-name-roundtrips")
	vrt.Assert(pairs[0][1] == v, "value-roundtrips")
	vrt.Assert(pairs[1][0] == "a" && pairs[1][1] == "b", "second-pair-roundtrips")
	vrt.Reach("end")
}
