//go:build verif

// verif:pkg ctrl/qryn/maintenance
package maintenance

import (
	"context"
	"errors"
	"strings"
	"time"

	"github.com/ClickHouse/clickhouse-go/v2/lib/driver"
	"github.com/metrico/qryn/zzverif/vrt"
)

// vhConn is the database as far as Rotate can see it: a settings table (last value per fingerprint),
// per-table TTL / storage-policy state, and a fault schedule (statement number failAt fails).
type vhConn struct {
	driver.Conn // nil: any method Rotate is not expected to call panics visibly
	calls       int
	failAt      int
	settings    map[uint32]string
	ttl         map[string]string
	policy      map[string]string
	alters      int
	afterFail   int
	failed      bool
}

func vhNewConn() *vhConn {
	return &vhConn{failAt: -1, settings: map[uint32]string{}, ttl: map[string]string{}, policy: map[string]string{}}
}

func (c *vhConn) step() error {
	if c.failed {
		c.afterFail++
	}
	n := c.calls
	c.calls++
	if n == c.failAt {
		c.failed = true
		return errors.New("clickhouse: fault injected")
	}
	return nil
}

func vhTableOf(q string) string {
	rest := q[len("ALTER TABLE "):]
	return rest[:strings.Index(rest, " ")]
}

func (c *vhConn) Exec(ctx context.Context, q string, args ...any) error {
	if err := c.step(); err != nil {
		return err
	}
	switch {
	case strings.HasPrefix(q, "INSERT INTO settings"):
		c.settings[args[0].(uint32)] = args[3].(string)
	case strings.HasPrefix(q, "ALTER TABLE "):
		c.alters++
		t := vhTableOf(q)
		if i := strings.Index(q, "MODIFY TTL "); i >= 0 {
			c.ttl[t] = q[i+len("MODIFY TTL "):]
		} else if strings.Contains(q, "storage_policy=$1") {
			c.policy[t] = args[0].(string)
		}
	default:
		panic("unexpected statement: " + q)
	}
	return nil
}

type vhRows struct {
	driver.Rows
	vals []string
	i    int
}

func (r *vhRows) Next() bool { r.i++; return r.i <= len(r.vals) }
func (r *vhRows) Scan(dest ...any) error {
	*(dest[0].(*string)) = r.vals[r.i-1]
	return nil
}

func (c *vhConn) Query(ctx context.Context, q string, args ...any) (driver.Rows, error) {
	if err := c.step(); err != nil {
		return nil, err
	}
	if v, ok := c.settings[args[0].(uint32)]; ok {
		return &vhRows{vals: []string{v}}, nil
	}
	return &vhRows{}, nil
}

type vhLog struct{}

func (vhLog) Error(args ...any) {}
func (vhLog) Debug(args ...any) {}
func (vhLog) Info(args ...any)  {}

var vhPolicyTables = []string{"time_series", "time_series_gin", "samples_v3", "tempo_traces", "tempo_traces_attrs_gin", "tempo_traces_kv", "metrics_15s"}

type vhCfg struct {
	cluster string
	days    []RotatePolicy
	drop    int
	policy  string
}

// vhConfig: cluster flag and storage policy are free; the numbers are symbolic only where the property
// depends on them (clamp). Idempotence and restart do not depend on the numeric values, so they take the
// retention numbers from a small table (ttl days 0/7, move after 0 s / 3 days / none).
func vhConfig(symbolicNumbers bool) vhCfg {
	var c vhCfg
	if vrt.Bool("clustered") {
		c.cluster = "c1"
	}
	if vrt.Bool("storage-policy-set") {
		c.policy = "tiered"
	}
	if !symbolicNumbers {
		switch vrt.Choice("retention-config", 3) {
		case 0:
			c.drop = 7
		case 1:
			c.drop = 0
			c.days = []RotatePolicy{{TTL: 0, MoveTo: "cold"}}
		default:
			c.drop = 30
			c.days = []RotatePolicy{{TTL: 72 * time.Hour, MoveTo: "cold"}}
		}
		return c
	}
	c.drop = 7
	secs := vrt.Int64("move-after-seconds")
	vrt.Assume(secs >= -5)
	vrt.Assume(secs < 20000000000) // beyond 2^31 seconds the int32 conversion overflows
	c.days = append(c.days, RotatePolicy{TTL: time.Duration(secs) * time.Second, MoveTo: "cold"})
	return c
}

func vhRun(db *vhConn, c vhCfg) error {
	return Rotate(db, c.cluster, c.cluster != "", c.days, c.drop, c.policy, vhLog{})
}

// vhConverged: every table carries a TTL expression recorded for its group, and the policy if configured.
func vhConverged(db *vhConn, c vhCfg) {
	for _, t := range vhPolicyTables {
		_, ok := db.ttl[t]
		vrt.Assert(ok, "every-table-has-its-ttl-applied")
		if c.policy != "" {
			vrt.Assert(db.policy[t] == c.policy, "every-table-has-the-storage-policy-applied")
		}
	}
}

// VH_C19_idempotent: after one clean run, a second run with unchanged configuration issues no ALTER.
func VH_C19_idempotent() {
	vrt.Unwind(400)
	c := vhConfig(false)
	db := vhNewConn()
	vrt.Assert(vhRun(db, c) == nil, "clean-run-succeeds")
	vhConverged(db, c)
	first := db.alters
	vrt.Assert((c.policy != "" && first == 21) || (c.policy == "" && first == 14), "first-run-alters-every-table")
	if vrt.KnownFinding("C19-metrics15s-marker-clash", c.policy != "") {
		return
	}
	vrt.Assert(vhRun(db, c) == nil, "second-run-succeeds")
	vrt.Assert(db.alters == first, "second-run-with-unchanged-configuration-issues-no-alter")
	vrt.Reach("end")
}

// VH_C19_fault_restart: a run that fails at any statement stops there, and the next (clean) run completes
// every group: markers are never ahead of the tables.
func VH_C19_fault_restart() {
	vrt.Unwind(400)
	c := vhConfig(false)
	db := vhNewConn()
	db.failAt = vrt.Len("fail-at-statement", 0, 45)
	err := vhRun(db, c)
	if !db.failed {
		vrt.Assert(err == nil, "run-without-fault-succeeds")
	} else {
		vrt.Assert(err != nil, "fault-is-reported")
		vrt.Assert(db.afterFail == 0, "no-statement-after-a-failed-one")
	}
	db.failAt = -1
	db.failed = false
	vrt.Assert(vhRun(db, c) == nil, "next-clean-run-succeeds")
	vhConverged(db, c)
	// the TTL every table ended with is the one of its group's final marker run: compare with a fresh database
	ref := vhNewConn()
	vrt.Assert(vhRun(ref, c) == nil, "reference-run-succeeds")
	for _, t := range vhPolicyTables {
		vrt.Assert(db.ttl[t] == ref.ttl[t], "table-ttl-equals-uninterrupted-run")
	}
	vrt.Reach("end")
}

// VH_C19_clamp: tier moves are never scheduled earlier than one minute (sample tables) / one day (index
// tables): rotateTables, the function that renders every TTL expression, with a symbolic move delay and
// both minimums Rotate passes to it (Rotate calls it five times with exactly these two values).
func VH_C19_clamp() {
	vrt.Unwind(400)
	secs := vrt.Int64("move-after-seconds")
	vrt.Assume(secs >= -5)
	vrt.Assume(secs < 20000000000) // beyond 2^31 seconds the int32 conversion overflows
	days := []RotatePolicy{{TTL: time.Duration(secs) * time.Second, MoveTo: "cold"}}
	minTTL := time.Minute
	minSecs := int64(60)
	if vrt.Bool("index-table") {
		minTTL = time.Hour * 24
		minSecs = 86400
	}
	db := vhNewConn()
	err := rotateTables(db, "", false, days, minTTL, "date", "date + toIntervalDay(7)", "grp", vhLog{}, "t1")
	vrt.Assert(err == nil, "clean-run-succeeds")
	vrt.Assert(vhMoveSeconds(db.ttl["t1"]) >= minSecs, "move-not-before-the-minimum")
	vrt.Reach("end")
}

// vhMoveSeconds parses N out of "... + toIntervalSecond(N) TO DISK ..." (first occurrence).
func vhMoveSeconds(ttl string) int64 {
	i := strings.Index(ttl, "toIntervalSecond(")
	if i < 0 {
		return -1
	}
	i += len("toIntervalSecond(")
	neg := false
	if ttl[i] == '-' {
		neg = true
		i++
	}
	var n int64
	for i < len(ttl) && ttl[i] >= '0' && ttl[i] <= '9' {
		n = n*10 + int64(ttl[i]-'0')
		i++
	}
	if neg {
		return -n
	}
	return n
}

// VH_C19_config_change: a clean run with one configuration followed by a clean run with another one
// (retention numbers, storage policy name, or both changed; same cluster layout): afterwards every table
// carries the TTL an uninterrupted first run with the second configuration gives it and the second storage
// policy, and a third run with the second configuration issues no ALTER.
func VH_C19_config_change() {
	vrt.Unwind(400)
	c1 := vhConfig(false)
	c2 := c1
	switch vrt.Choice("what-changes", 4) {
	case 0:
		c2.policy = "tiered_cold"
		vrt.Assume(c1.policy != "")
	case 1:
		c2.drop = c1.drop + 1
	case 2:
		c2.policy = "tiered_cold"
		c2.drop = c1.drop + 1
	default:
		// only the tier list changes (a tier added, removed or moved to another disk), ttl days unchanged
		switch vrt.Choice("tier-change", 3) {
		case 0:
			c2.days = append(append([]RotatePolicy{}, c1.days...), RotatePolicy{TTL: 240 * time.Hour, MoveTo: "archive"})
		case 1:
			vrt.Assume(len(c1.days) > 0)
			c2.days = nil
		default:
			vrt.Assume(len(c1.days) > 0)
			c2.days = []RotatePolicy{{TTL: c1.days[0].TTL, MoveTo: "warm"}}
		}
	}
	db := vhNewConn()
	vrt.Assert(vhRun(db, c1) == nil, "first-run-succeeds")
	vhConverged(db, c1)
	vrt.Assert(vhRun(db, c2) == nil, "run-with-the-new-configuration-succeeds")
	vhConverged(db, c2)
	ref := vhNewConn()
	vrt.Assert(vhRun(ref, c2) == nil, "reference-run-succeeds")
	for _, t := range vhPolicyTables {
		vrt.Assert(db.ttl[t] == ref.ttl[t], "table-ttl-is-the-new-configurations")
	}
	n := db.alters
	vrt.Assert(vhRun(db, c2) == nil, "third-run-succeeds")
	vrt.Assert(db.alters == n, "re-run-with-the-new-configuration-issues-no-alter")
	vrt.Reach("end")
}

// VH_C19_change_interrupted_then_reverted: configuration A applied cleanly, a run with configuration B
// interrupted at any statement, then configuration A again (the operator reverts the change): after the last
// run every table carries A's TTL and storage policy - a table the interrupted run already moved to B must
// not be left there because the recorded marker still says A.
func VH_C19_change_interrupted_then_reverted() {
	vrt.Unwind(400)
	a := vhConfig(false)
	vrt.Assume(a.policy != "")
	b := a
	if vrt.Bool("retention-changes") {
		b.drop = a.drop + 1
	} else {
		b.policy = "tiered_cold"
	}
	db := vhNewConn()
	vrt.Assert(vhRun(db, a) == nil, "first-run-succeeds")
	db.calls = 0
	db.failAt = vrt.Len("fail-at-statement", 0, 45)
	before := db.alters
	_ = vhRun(db, b)
	faulted := db.failed && db.alters > before // interrupted after it had altered at least one table
	db.failAt, db.failed, db.afterFail = -1, false, 0
	vrt.Assert(vhRun(db, a) == nil, "run-with-the-reverted-configuration-succeeds")
	ref := vhNewConn()
	vrt.Assert(vhRun(ref, a) == nil, "reference-run-succeeds")
	if vrt.KnownFinding("C19-interrupted-change-then-revert", faulted) {
		return
	}
	for _, t := range vhPolicyTables {
		vrt.Assert(db.ttl[t] == ref.ttl[t], "table-ttl-is-the-reverted-configurations")
		vrt.Assert(db.policy[t] == a.policy, "table-storage-policy-is-the-reverted-configurations")
	}
	vrt.Reach("end")
}
