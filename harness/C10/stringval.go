//go:build verif

// verif:pkg reader/utils/sql_select
package sql

import (
	"github.com/metrico/qryn/zzverif/vlib"
	"github.com/metrico/qryn/zzverif/vrt"
)

// VH_C10_stringval: for every byte string, StringVal renders exactly one ClickHouse string literal
// (nothing before or after it) whose decoded value is the input.
func VH_C10_stringval() {
	maxLen := 3
	if vrt.Thorough() {
		maxLen = 5
	}
	vrt.Unwind(200)
	v := vrt.String("value", vrt.Len("len", 0, maxLen))
	out, err := NewStringVal(v).String(&Ctx{})
	vrt.Assert(err == nil, "no-error")
	toks, ok := vlib.SQLLex(out)
	vrt.Assert(ok, "literal-terminated")
	vrt.Assert(len(toks) == 1, "exactly-one-token")
	vrt.Assert(toks[0].Kind == 'S', "token-is-string-literal")
	vrt.Assert(toks[0].Start == 0, "literal-starts-at-0")
	vrt.Assert(toks[0].End == len(out), "literal-spans-whole-output")
	vrt.Assert(toks[0].Text == v, "literal-decodes-to-input")
	vrt.Reach("end")
}
