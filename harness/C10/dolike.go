//go:build verif

// verif:pkg reader/logql/logql_transpiler_v2/clickhouse_planner
package clickhouse_planner

import (
	sql "github.com/metrico/qryn/reader/utils/sql_select"
	"github.com/metrico/qryn/zzverif/vlib"
	"github.com/metrico/qryn/zzverif/vrt"
)

// VH_C10_dolike: a LogQL line filter |= "<v>" for any byte string v renders
// like(samples.string, '<literal>') == 1 with exactly that token structure, and the literal is a LIKE
// pattern meaning "contains v".
func VH_C10_dolike() {
	maxLen := 2
	if vrt.Thorough() {
		maxLen = 4
	}
	vrt.Unwind(200)
	v := vrt.String("value", vrt.Len("len", 0, maxLen))
	l := &LineFilterPlanner{Op: "|=", Val: v}
	cond, err := l.doLike("like", l.Val)
	vrt.Assert(err == nil, "no-error")
	out, err := cond.String(sql.DefaultCtx())
	vrt.Assert(err == nil, "no-render-error")
	toks, ok := vlib.SQLLex(out)
	vrt.Assert(ok, "statement-lexes")
	vrt.Assert(vlib.SQLShape(toks) == "(I<like>(I<samples>.I<string>,S))==(N)", "token-structure-as-for-harmless-literal")
	pat := toks[7].Text
	lit, isContains := vlib.LikeContainsLiteral(pat)
	backslashOrQuote := false
	for i := 0; i < len(v); i++ {
		if v[i] == '\\' || v[i] == '\'' {
			backslashOrQuote = true
		}
	}
	if vrt.KnownFinding("C10-dolike-pattern", backslashOrQuote) {
		return
	}
	vrt.Assert(isContains, "pattern-is-escaped-contains-pattern")
	vrt.Assert(lit == v, "pattern-decodes-to-the-filter-text")
	vrt.Reach("end")
}
