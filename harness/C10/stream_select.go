//go:build verif

// verif:pkg reader/logql/logql_transpiler_v2/clickhouse_planner
package clickhouse_planner

import (
	"time"

	"github.com/metrico/qryn/reader/logql/logql_transpiler_v2/shared"
	sql "github.com/metrico/qryn/reader/utils/sql_select"
	"github.com/metrico/qryn/zzverif/vlib"
	"github.com/metrico/qryn/zzverif/vrt"
)

func vqRender(p shared.SQLRequestPlanner) string {
	ctx := &shared.PlannerContext{From: time.Unix(1700000000, 0), To: time.Unix(1700000600, 0),
		TimeSeriesGinTableName: "time_series_gin", CHSqlCtx: sql.DefaultCtx()}
	sel, err := p.Process(ctx)
	vrt.Assert(err == nil, "plan-processes")
	s, err := sel.String(sql.DefaultCtx())
	vrt.Assert(err == nil, "plan-renders")
	return s
}

// VH_C10_stream_select: the series-selection statement built from a LogQL / PromQL selector. For every
// byte string as matcher value (and as regex), for every operator, the statement has the same token
// structure as for the harmless value "x", and each value sits inside string literals that decode to it.
func VH_C10_stream_select() {
	vrt.Unwind(400)
	ops := []string{"=", "!=", "=~", "!~"}
	n := vrt.Len("matchers", 1, 2)
	var names, mops, vals, harmless []string
	for i := 0; i < n; i++ {
		names = append(names, "l"+string(rune('a'+i)))
		mops = append(mops, ops[vrt.Choice("operator", 4)])
		vals = append(vals, vrt.String("value", vrt.Len("value-len", 0, 1)))
		harmless = append(harmless, "x")
	}
	got := vqRender(&StreamSelectPlanner{LabelNames: names, Ops: mops, Values: vals})
	ref := vqRender(&StreamSelectPlanner{LabelNames: names, Ops: mops, Values: harmless})
	gt, ok := vlib.SQLLex(got)
	vrt.Assert(ok, "statement-lexes")
	rt, ok2 := vlib.SQLLex(ref)
	vrt.Assert(ok2, "reference-statement-lexes")
	vrt.Assert(vlib.SQLShape(gt) == vlib.SQLShape(rt), "token-structure-as-for-harmless-literal")
	// every literal that is "x" in the reference decodes to the corresponding value
	k := 0
	for i, t := range rt {
		if t.Kind == 'S' && t.Text == "x" {
			vrt.Assert(gt[i].Kind == 'S', "value-position-is-a-string-literal")
			found := false
			for _, v := range vals {
				if gt[i].Text == v {
					found = true
				}
			}
			vrt.Assert(found, "literal-decodes-to-a-submitted-value")
			k++
		}
	}
	vrt.Assert(k >= n, "every-value-position-checked")
	vrt.Reach("end")
}
