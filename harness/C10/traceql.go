//go:build verif

// verif:pkg reader/traceql/transpiler/clickhouse_transpiler
package clickhouse_transpiler

import (
	sql "github.com/metrico/qryn/reader/utils/sql_select"
	"github.com/metrico/qryn/zzverif/vlib"
	"github.com/metrico/qryn/zzverif/vrt"
)

// VH_C10_traceql_sql_objects: the TraceQL planner's text-carrying SQL objects - the regexp of =~ / !~
// (matchRe) and the attribute name of an aggregated attribute (sqlAttrValue) - for every byte string in the
// text slot: the rendered fragment has the token structure it has for the harmless text "x" and the literal
// decodes to the request text.
func VH_C10_traceql_sql_objects() {
	vrt.Unwind(600)
	maxLen := 3
	if vrt.Thorough() {
		maxLen = 4
	}
	kind := vrt.Choice("object", 2)
	v := vrt.String("text", vrt.Len("text-len", 0, maxLen))
	mk := func(t string) sql.SQLObject {
		if kind == 0 {
			return matchRe{field: sql.NewRawObject("val"), re: t}
		}
		return &sqlAttrValue{attr: t}
	}
	got, err := mk(v).String(sql.DefaultCtx())
	vrt.Assert(err == nil, "renders")
	ref, err := mk("x").String(sql.DefaultCtx())
	vrt.Assert(err == nil, "reference-renders")
	gt, ok := vlib.SQLLex(got)
	vrt.Assert(ok, "fragment-lexes")
	rt, ok2 := vlib.SQLLex(ref)
	vrt.Assert(ok2, "reference-lexes")
	vrt.Assert(vlib.SQLShape(gt) == vlib.SQLShape(rt), "token-structure-as-for-harmless-text")
	k := 0
	for i, t := range rt {
		if t.Kind == 'S' && t.Text == "x" {
			vrt.Assert(gt[i].Kind == 'S' && gt[i].Text == v, "literal-decodes-to-request-text")
			k++
		}
	}
	vrt.Assert(k >= 1, "text-position-checked")
	vrt.Reach("end")
}
