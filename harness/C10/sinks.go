//go:build verif

// verif:pkg reader/logql/logql_transpiler_v2/clickhouse_planner
package clickhouse_planner

import (
	sql "github.com/metrico/qryn/reader/utils/sql_select"
	"github.com/metrico/qryn/zzverif/vlib"
	"github.com/metrico/qryn/zzverif/vrt"
)

// vqSink builds one of the planner's SQL objects that carry request text (JSON-parser paths and label
// names, regexp-parser pattern and group names, drop/keep labels and values, format strings, match()
// patterns, by/without label lists) with the given request string in the text slot.
func vqSink(kind int, v string) sql.SQLObject {
	col := sql.NewRawObject("string")
	switch kind {
	case 0: // | json lbl="<path part>"
		return &sqlJsonParser{col: col, labels: []string{"lbl"}, paths: [][]string{{v}}}
	case 1: // two-part path, request text second
		return &sqlJsonParser{col: col, labels: []string{"lbl"}, paths: [][]string{{"a", v}}}
	case 2: // label name of the json parser
		return &sqlJsonParser{col: col, labels: []string{v}, paths: [][]string{{"a"}}}
	case 3: // | regexp "<re>"
		return &regexMap{col: col, labels: []string{"g"}, re: v}
	case 4: // regexp group name
		return &regexMap{col: col, labels: []string{v}, re: "(?P<g>.)"}
	case 5: // | drop lbl="<val>"
		return mapDropFilter{col: sql.NewRawObject("labels"), labels: []string{"lbl"}, values: []string{v}}
	case 6: // | drop <lbl>
		return mapDropFilter{col: sql.NewRawObject("labels"), labels: []string{v}, values: []string{""}}
	case 7: // | line_format
		return &sqlFormat{format: v, args: []sql.SQLObject{sql.NewRawObject("string")}}
	case 8: // |~ "<re>"
		return &sqlMatch{col: col, pattern: v}
	case 9: // by (<lbl>)
		return &byWithoutFilterCol{labelsCol: sql.NewRawObject("labels"), labels: []string{v}}
	case 10: // | line_format with a text-only template (no label references)
		return &sqlFormat{format: v}
	default: // map literal keys/values
		return &sqlMapInit{TypeName: "Map(String, String)", Keys: []sql.SQLObject{sql.NewStringVal(v)},
			Values: []sql.SQLObject{sql.NewStringVal(v)}}
	}
}

// VH_C10_planner_sql_objects: for every byte string in the request-text slot of every text-carrying
// SQL object of the LogQL planner, the rendered fragment has the token structure it has for the
// harmless text "x", and every literal that is 'x' there decodes to the request text here.
func VH_C10_planner_sql_objects() {
	vrt.Unwind(400)
	maxLen := 2
	if vrt.Thorough() {
		maxLen = 3
	}
	kind := vrt.Choice("object", 12)
	v := vrt.String("text", vrt.Len("text-len", 0, maxLen))
	if kind == 5 {
		vrt.Assume(len(v) > 0) // an empty drop value selects the other clause form
	}
	got, err := vqSink(kind, v).String(sql.DefaultCtx())
	vrt.Assert(err == nil, "renders")
	ref, err := vqSink(kind, "x").String(sql.DefaultCtx())
	vrt.Assert(err == nil, "reference-renders")
	gt, ok := vlib.SQLLex(got)
	vrt.Assert(ok, "fragment-lexes")
	rt, ok2 := vlib.SQLLex(ref)
	vrt.Assert(ok2, "reference-lexes")
	vrt.Assert(vlib.SQLShape(gt) == vlib.SQLShape(rt), "token-structure-as-for-harmless-text")
	k := 0
	for i, t := range rt {
		if t.Kind == 'S' && t.Text == "x" {
			vrt.Assert(gt[i].Kind == 'S', "text-position-is-a-string-literal")
			vrt.Assert(gt[i].Text == v, "literal-decodes-to-request-text")
			k++
		}
	}
	vrt.Assert(k >= 1, "text-position-checked")
	vrt.Reach("end")
}
