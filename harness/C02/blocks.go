//go:build verif

// verif:pkg writer/service/impl
package impl

import (
	"time"

	"github.com/metrico/qryn/writer/model"
	"github.com/metrico/qryn/writer/service"
	"github.com/metrico/qryn/zzverif/vrt"
)

func vcMultimodal(s service.IInsertServiceV2) *service.InsertServiceV2Multimodal {
	return s.(*service.InsertServiceV2Multimodal)
}

// vcRectangular: every column of the block has the same number of rows.
func vcRectangular(cols []service.IColPoolRes, want int) {
	for _, c := range cols {
		in := c.Input()
		vrt.Assert(in.Data.Rows() == want, "every-column-has-the-same-number-of-rows")
	}
}

func vcSamples(tag string, n int) *model.TimeSamplesData {
	d := &model.TimeSamplesData{}
	for i := 0; i < n; i++ {
		d.MFingerprint = append(d.MFingerprint, vrt.Uint64(tag+"-fingerprint"))
		d.MTimestampNS = append(d.MTimestampNS, vrt.Int64(tag+"-ts"))
		d.MMessage = append(d.MMessage, vrt.String(tag+"-line", 1))
		d.MValue = append(d.MValue, float64(i))
		d.MType = append(d.MType, vrt.Byte(tag+"-type"))
		d.Size += 27
	}
	return d
}

// VH_C02_samples: two requests (0..2 rows each) appended to one shared block by the real samples
// ProcessRequest: the block is rectangular, row j of the block is row j of the submitting request
// field for field, no row twice, none missing, and the reported row count is right.
func VH_C02_samples() {
	vrt.Unwind(300)
	service.CreateColPools(4)
	svc := vcMultimodal(NewSamplesInsertService(model.InsertServiceOpts{Node: &model.DataDatabasesMap{}}))
	cols := svc.AcquireColumns()
	na, nb := vrt.Len("rows-a", 0, 2), vrt.Len("rows-b", 0, 2)
	a, b := vcSamples("a", na), vcSamples("b", nb)
	first, second := a, b
	if vrt.Bool("b-first") {
		first, second = b, a
	}
	n1, cols, err := svc.ProcessRequest(first, cols)
	vrt.Assert(err == nil, "request-accepted")
	vrt.Assert(n1 == len(first.MTimestampNS), "reported-row-count")
	n2, cols, err := svc.ProcessRequest(second, cols)
	vrt.Assert(err == nil, "request-accepted")
	vrt.Assert(n2 == len(second.MTimestampNS), "reported-row-count")
	vcRectangular(cols, na+nb)
	acq := (&SamplesAcquirer{}).deserialize(cols)
	j := 0
	for _, r := range []*model.TimeSamplesData{first, second} {
		for i := range r.MTimestampNS {
			vrt.Assert(acq.TimestampNS.Data[j] == r.MTimestampNS[i], "row-timestamp-from-its-own-request-row")
			vrt.Assert(acq.Fingerprint.Data[j] == r.MFingerprint[i], "row-fingerprint-from-its-own-request-row")
			vrt.Assert(acq.Type.Data[j] == r.MType[i], "row-type-from-its-own-request-row")
			vrt.Assert(acq.String.Data.Row(j) == r.MMessage[i], "row-line-from-its-own-request-row")
			vrt.Assert(acq.Value.Data[j] == r.MValue[i], "row-value-from-its-own-request-row")
			j++
		}
	}
	// a second block is opened while the first is still alive (the open batch next to the batch being sent, or
	// another service drawing from the same pools): writing it must not change the first
	cols2 := svc.AcquireColumns()
	c := vcSamples("c", vrt.Len("rows-c", 1, 2))
	n3, cols2, err := svc.ProcessRequest(c, cols2)
	vrt.Assert(err == nil && n3 == len(c.MTimestampNS), "request-accepted-with-its-row-count")
	vcRectangular(cols2, n3)
	vcRectangular(cols, na+nb)
	acq2 := (&SamplesAcquirer{}).deserialize(cols2)
	for i := range c.MTimestampNS {
		vrt.Assert(acq2.Type.Data[i] == c.MType[i] && acq2.TimestampNS.Data[i] == c.MTimestampNS[i] && acq2.Fingerprint.Data[i] == c.MFingerprint[i],
			"second-block-row-from-its-own-request-row")
	}
	acq = (&SamplesAcquirer{}).deserialize(cols)
	j = 0
	for _, r := range []*model.TimeSamplesData{first, second} {
		for i := range r.MTimestampNS {
			vrt.Assert(acq.Type.Data[j] == r.MType[i] && acq.TimestampNS.Data[j] == r.MTimestampNS[i] && acq.Fingerprint.Data[j] == r.MFingerprint[i] &&
				acq.Value.Data[j] == r.MValue[i] && acq.String.Data.Row(j) == r.MMessage[i], "first-block-unchanged-by-the-second")
			j++
		}
	}
	vrt.Reach("end")
}

func vcSpans(tag string, n int, idLen func() int) *model.TempoSamples {
	d := &model.TempoSamples{}
	for i := 0; i < n; i++ {
		d.MTraceId = append(d.MTraceId, vrt.Bytes(tag+"-trace-id", idLen()))
		d.MSpanId = append(d.MSpanId, vrt.Bytes(tag+"-span-id", 8))
		d.MTimestampNs = append(d.MTimestampNs, vrt.Int64(tag+"-ts"))
		d.MDurationNs = append(d.MDurationNs, vrt.Int64(tag+"-dur"))
		d.MParentId = append(d.MParentId, "p")
		d.MName = append(d.MName, vrt.String(tag+"-name", 1))
		d.MServiceName = append(d.MServiceName, "svc")
		d.MPayloadType = append(d.MPayloadType, 1)
		d.MPayload = append(d.MPayload, []byte("x"))
		d.Size += 60
	}
	return d
}

// VH_C02_spans: the same for trace rows. Ids have the lengths onSpan guarantees (16/8; any other length
// is rejected before it reaches the batch - shown through the real decoder in VH_C02_otlp_pipeline).
func VH_C02_spans() {
	vrt.Unwind(300)
	service.CreateColPools(4)
	svc := vcMultimodal(NewTempoSamplesInsertService(model.InsertServiceOpts{Node: &model.DataDatabasesMap{}}))
	cols := svc.AcquireColumns()
	a := vcSpans("a", vrt.Len("rows-a", 0, 2), func() int { return 16 })
	b := vcSpans("b", vrt.Len("rows-b", 0, 2), func() int { return 16 })
	n1, cols, err := svc.ProcessRequest(a, cols)
	vrt.Assert(err == nil && n1 == len(a.MTraceId), "request-accepted-with-its-row-count")
	n2, cols, err := svc.ProcessRequest(b, cols)
	vrt.Assert(err == nil && n2 == len(b.MTraceId), "request-accepted-with-its-row-count")
	vcRectangular(cols, n1+n2)
	acq := (&tempoSamplesAcquirer{}).fromIFace(cols)
	j := 0
	for _, r := range []*model.TempoSamples{a, b} {
		for i := range r.MTraceId {
			vrt.Assert(string(acq.traceId.Data.Row(j)) == string(r.MTraceId[i]), "row-trace-id-from-its-own-request-row")
			vrt.Assert(string(acq.spanId.Data.Row(j)) == string(r.MSpanId[i]), "row-span-id-from-its-own-request-row")
			vrt.Assert(acq.timestampNs.Data[j] == r.MTimestampNs[i], "row-timestamp-from-its-own-request-row")
			vrt.Assert(acq.durationNs.Data[j] == r.MDurationNs[i], "row-duration-from-its-own-request-row")
			vrt.Assert(acq.name.Data.Row(j) == r.MName[i], "row-name-from-its-own-request-row")
			j++
		}
	}
	vrt.Reach("end")
}

func vcSeries(tag string, n int) *model.TimeSeriesData {
	d := &model.TimeSeriesData{}
	for i := 0; i < n; i++ {
		d.MDate = append(d.MDate, time.Unix(1700000000+int64(vrt.Choice(tag+"-day", 3))*86400, 0).UTC())
		d.MLabels = append(d.MLabels, `{"l":"`+vrt.String(tag+"-label", 1)+`"}`)
		d.MFingerprint = append(d.MFingerprint, vrt.Uint64(tag+"-fingerprint"))
		d.MType = append(d.MType, vrt.Byte(tag+"-type"))
		d.Size += 40
	}
	return d
}

// VH_C02_series: two series requests (0..2 rows each) appended to one shared block by the real time_series
// ProcessRequest: rectangular block, row j = row j of the submitting request (date, fingerprint, labels, type),
// reported row count right.
func VH_C02_series() {
	vrt.Unwind(300)
	service.CreateColPools(4)
	svc := vcMultimodal(NewTimeSeriesInsertService(model.InsertServiceOpts{Node: &model.DataDatabasesMap{}}))
	cols := svc.AcquireColumns()
	a, b := vcSeries("a", vrt.Len("rows-a", 0, 2)), vcSeries("b", vrt.Len("rows-b", 0, 2))
	n1, cols, err := svc.ProcessRequest(a, cols)
	vrt.Assert(err == nil && n1 == len(a.MDate), "request-accepted-with-its-row-count")
	n2, cols, err := svc.ProcessRequest(b, cols)
	vrt.Assert(err == nil && n2 == len(b.MDate), "request-accepted-with-its-row-count")
	vcRectangular(cols, n1+n2)
	acq := (&TimeSeriesAcquirer{}).deserialize(cols)
	j := 0
	for _, r := range []*model.TimeSeriesData{a, b} {
		for i := range r.MDate {
			vrt.Assert(int64(acq.Date.Data[j]) == r.MDate[i].Unix()/86400, "row-date-from-its-own-request-row")
			vrt.Assert(acq.Fingerprint.Data[j] == r.MFingerprint[i], "row-fingerprint-from-its-own-request-row")
			vrt.Assert(acq.Type.Data[j] == r.MType[i], "row-type-from-its-own-request-row")
			vrt.Assert(acq.Labels.Data.Row(j) == r.MLabels[i], "row-labels-from-its-own-request-row")
			j++
		}
	}
	vrt.Reach("end")
}

func vcTags(tag string, n int) *model.TempoTag {
	d := &model.TempoTag{}
	for i := 0; i < n; i++ {
		d.MTraceId = append(d.MTraceId, vrt.Bytes(tag+"-trace-id", 16))
		d.MSpanId = append(d.MSpanId, vrt.Bytes(tag+"-span-id", 8))
		d.MTimestampNs = append(d.MTimestampNs, vrt.Int64(tag+"-ts"))
		d.MDurationNs = append(d.MDurationNs, vrt.Int64(tag+"-dur"))
		d.MKey = append(d.MKey, vrt.String(tag+"-key", 1))
		d.MVal = append(d.MVal, vrt.String(tag+"-val", 1))
		d.MDate = append(d.MDate, time.Unix(1700000000, 0).UTC())
		d.Size += 60
	}
	return d
}

// VH_C02_tags: the same for trace tag rows.
func VH_C02_tags() {
	vrt.Unwind(300)
	service.CreateColPools(4)
	svc := vcMultimodal(NewTempoTagsInsertService(model.InsertServiceOpts{Node: &model.DataDatabasesMap{}}))
	cols := svc.AcquireColumns()
	a, b := vcTags("a", vrt.Len("rows-a", 0, 2)), vcTags("b", vrt.Len("rows-b", 0, 2))
	n1, cols, err := svc.ProcessRequest(a, cols)
	vrt.Assert(err == nil && n1 == len(a.MKey), "request-accepted-with-its-row-count")
	n2, cols, err := svc.ProcessRequest(b, cols)
	vrt.Assert(err == nil && n2 == len(b.MKey), "request-accepted-with-its-row-count")
	vcRectangular(cols, n1+n2)
	acq := (&tempoTagsAcquirer{}).fromIFace(cols)
	j := 0
	for _, r := range []*model.TempoTag{a, b} {
		for i := range r.MKey {
			vrt.Assert(string(acq.traceId.Data.Row(j)) == string(r.MTraceId[i]), "row-trace-id-from-its-own-request-row")
			vrt.Assert(string(acq.spanId.Data.Row(j)) == string(r.MSpanId[i]), "row-span-id-from-its-own-request-row")
			vrt.Assert(acq.key.Data.Row(j) == r.MKey[i], "row-key-from-its-own-request-row")
			vrt.Assert(acq.val.Data.Row(j) == r.MVal[i], "row-value-from-its-own-request-row")
			vrt.Assert(acq.timestampNS.Data[j] == r.MTimestampNs[i], "row-timestamp-from-its-own-request-row")
			vrt.Assert(acq.durationNS.Data[j] == r.MDurationNs[i], "row-duration-from-its-own-request-row")
			j++
		}
	}
	vrt.Reach("end")
}

// VH_C02_metrics: the same for the metrics table (type, fingerprint, timestamp, value), with symbolic float
// values.
func VH_C02_metrics() {
	vrt.Unwind(300)
	service.CreateColPools(4)
	svc := vcMultimodal(NewMetricsInsertService(model.InsertServiceOpts{Node: &model.DataDatabasesMap{}}))
	cols := svc.AcquireColumns()
	mk := func(tag string, n int) *model.TimeSamplesData {
		d := &model.TimeSamplesData{}
		for i := 0; i < n; i++ {
			d.MFingerprint = append(d.MFingerprint, vrt.Uint64(tag+"-fingerprint"))
			d.MTimestampNS = append(d.MTimestampNS, vrt.Int64(tag+"-ts"))
			d.MMessage = append(d.MMessage, "")
			v := vrt.Float64(tag + "-value")
			vrt.Assume(v == v)
			d.MValue = append(d.MValue, v)
			d.MType = append(d.MType, 2)
			d.Size += 26
		}
		return d
	}
	a, b := mk("a", vrt.Len("rows-a", 0, 2)), mk("b", vrt.Len("rows-b", 0, 2))
	n1, cols, err := svc.ProcessRequest(a, cols)
	vrt.Assert(err == nil && n1 == len(a.MValue), "request-accepted-with-its-row-count")
	n2, cols, err := svc.ProcessRequest(b, cols)
	vrt.Assert(err == nil && n2 == len(b.MValue), "request-accepted-with-its-row-count")
	vcRectangular(cols, n1+n2)
	acq := (&MetricsAcquirer{}).deserialize(cols)
	j := 0
	for _, r := range []*model.TimeSamplesData{a, b} {
		for i := range r.MValue {
			vrt.Assert(acq.Type.Data[j] == r.MType[i] && acq.Fingerprint.Data[j] == r.MFingerprint[i] &&
				acq.TimestampNS.Data[j] == r.MTimestampNS[i] && acq.Value.Data[j] == r.MValue[i], "row-from-its-own-request-row")
			j++
		}
	}
	vrt.Reach("end")
}

// VH_C02_profiles: two profile requests (one row each, array columns of symbolic lengths 0..2) appended to
// one shared block by the real profile ProcessRequest (tuple/array column adaptors executed from SSA): every
// column has two rows and the scalar fields of row j are those of request j.
func VH_C02_profiles() {
	vrt.Unwind(400)
	service.CreateColPools(4)
	svc := vcMultimodal(NewProfileSamplesInsertService(model.InsertServiceOpts{Node: &model.DataDatabasesMap{}}))
	cols := svc.AcquireColumns()
	mk := func(tag string) *model.ProfileData {
		d := &model.ProfileData{
			TimestampNs: []uint64{vrt.Uint64(tag + "-ts")}, DurationNs: []uint64{vrt.Uint64(tag + "-dur")},
			Ptype: []string{"cpu"}, ServiceName: []string{"svc" + tag}, PeriodType: []string{"t"}, PeriodUnit: []string{"u"},
			PayloadType: []string{"0"}, Payload: [][]byte{vrt.Bytes(tag+"-payload", 1)},
		}
		for i, n := 0, vrt.Len(tag+"-sample-types", 0, 1); i < n; i++ {
			d.SamplesTypesUnits = append(d.SamplesTypesUnits, model.StrStr{Str1: "s", Str2: "u"})
			d.ValuesAgg = append(d.ValuesAgg, model.ValuesAgg{ValueStr: "s", ValueInt64: vrt.Int64(tag + "-agg"), ValueInt32: 1})
		}
		for i, n := 0, vrt.Len(tag+"-tree-nodes", 0, 2); i < n; i++ {
			node := model.TreeRootStructure{Field1: uint64(i), Field2: 1, Field3: 2}
			for k, nv := 0, vrt.Len(tag+"-node-values", 0, 1); k < nv; k++ { // a node may carry no value at all
				node.ValueArrTuple = append(node.ValueArrTuple, model.ValuesArrTuple{ValueStr: "s", FirstValueInt64: int64(k), SecondValueInt64: 2})
			}
			d.Tree = append(d.Tree, node)
			d.Function = append(d.Function, model.Function{ValueInt64: uint64(i), ValueStr: "f"})
		}
		if vrt.Bool(tag + "-has-tag") {
			d.Tags = append(d.Tags, model.StrStr{Str1: "k", Str2: "v"})
		}
		return d
	}
	a, b := mk("a"), mk("b")
	n1, cols, err := svc.ProcessRequest(a, cols)
	vrt.Assert(err == nil && n1 == 1, "request-accepted-with-its-row-count")
	n2, cols, err := svc.ProcessRequest(b, cols)
	vrt.Assert(err == nil && n2 == 1, "request-accepted-with-its-row-count")
	vcRectangular(cols, 2)
	acq := (&profileSamplesAcquirer{}).fromIFace(cols)
	// the tree column: one array per request, one element per node, and per node one array of its values
	nodes := len(a.Tree) + len(b.Tree)
	vrt.Assert(acq.tree.Data.Data.Rows() == nodes, "tree-column-holds-every-node-once")
	for j, r := range []*model.ProfileData{a, b} {
		vrt.Assert(len(acq.tree.Data.Row(j)) == len(r.Tree), "tree-row-has-its-own-requests-nodes")
		for k, nd := range acq.tree.Data.Row(j) {
			vrt.Assert(nd.Field1 == r.Tree[k].Field1 && len(nd.ValueArrTuple) == len(r.Tree[k].ValueArrTuple), "tree-node-carries-its-own-values")
			for x := range nd.ValueArrTuple {
				vrt.Assert(nd.ValueArrTuple[x].FirstValueInt64 == r.Tree[k].ValueArrTuple[x].FirstValueInt64, "tree-node-value-is-its-own")
			}
		}
	}
	for j, r := range []*model.ProfileData{a, b} {
		vrt.Assert(acq.timestampNs.Data[j] == r.TimestampNs[0] && acq.durationNs.Data[j] == r.DurationNs[0], "row-times-from-its-own-request")
		vrt.Assert(acq.serviceName.Data.Row(j) == r.ServiceName[0], "row-service-from-its-own-request")
		vrt.Assert(acq.payload.Data.Row(j) == string(r.Payload[0]), "row-payload-from-its-own-request")
	}
	vrt.Reach("end")
}
