//go:build verif

// verif:pkg writer/utils/promise
package promise

// VHLock exposes the completion channel of a promise to harnesses (non-blocking "is it answered?").
func VHLock[T any](p *Promise[T]) chan any { return p.lock }
