//go:build verif

// verif:pkg reader/service
package service

import (
	"context"
	"database/sql"
	"errors"
	"strings"

	"github.com/metrico/cloki-config/config"
	"github.com/metrico/qryn/reader/model"
	"github.com/metrico/qryn/zzverif/vrt"
	"github.com/metrico/qryn/zzverif/vsql"
	"github.com/prometheus/prometheus/model/labels"
	"github.com/prometheus/prometheus/storage"
)

// a database that fails where the harness says: the n-th statement is refused, or the result set of the
// n-th statement breaks while row k is fetched, or a cell has a type the reader cannot scan
type vfDB struct {
	refuseAt, breakAt, breakRow int
	badCell                   bool
	n                         int
	data                      func(query string) ([]string, [][]any)
}

func (d *vfDB) GetName() string { return "scripted-c12" }
func (d *vfDB) QueryCtx(ctx context.Context, query string, args ...any) (*sql.Rows, error) {
	i := d.n
	d.n++
	if i == d.refuseAt {
		return nil, errors.New("connection refused")
	}
	cols, rows := d.data(query)
	if i == d.breakAt {
		return vsql.RowsFailingAt(cols, rows, d.breakRow), nil
	}
	return vsql.Rows(cols, rows), nil
}
func (d *vfDB) ExecCtx(ctx context.Context, query string, args ...any) error { return nil }
func (d *vfDB) Conn(ctx context.Context) (*sql.Conn, error)                    { return nil, nil }
func (d *vfDB) Begin() (*sql.Tx, error)                                        { return nil, nil }
func (d *vfDB) Close()                                                         {}

type vfRegistry struct{ db *vfDB }

func (r *vfRegistry) GetDB(ctx context.Context) (*model.DataDatabasesMap, error) {
	return &model.DataDatabasesMap{Config: &config.ClokiBaseDataBase{Name: "qryn"}, Session: r.db}, nil
}
func (r *vfRegistry) Run()        {}
func (r *vfRegistry) Stop()       {}
func (r *vfRegistry) Ping() error { return nil }

// VH_C12_read_services_faults: the label, label-values, trace and Prometheus-select services over a
// database that refuses a statement, breaks a result set at any row, or returns a cell of an unexpected
// type (NULL): every call returns or closes its result channel, nothing panics outside a recover, and no
// goroutine is left behind - for every choice of service, failing statement and failing row.
func VH_C12_read_services_faults() {
	vrt.CheckLeaks()
	vrt.Unwind(3000)
	db := &vfDB{refuseAt: -1, breakAt: -1}
	switch vrt.Choice("fault", 4) {
	case 1:
		db.refuseAt = vrt.Choice("refused-statement", 4)
	case 2:
		db.breakAt, db.breakRow = vrt.Choice("broken-statement", 4), vrt.Choice("broken-at-row", 3)
	case 3:
		db.badCell = true
	}
	var null any
	db.data = func(q string) ([]string, [][]any) {
		switch {
		case strings.HasPrefix(q, "SELECT argMax(name"):
			return []string{"_name", "_value"}, nil
		case strings.Contains(q, "JSONExtractKeysAndValues"):
			return []string{"fingerprint", "labels"}, [][]any{{uint64(1), [][]interface{}{{"job", "a"}}}, {uint64(2), [][]interface{}{{"job", "b"}}}}
		case strings.Contains(q, "samples.timestamp_ns"):
			return []string{"fingerprint", "value", "timestamp_ms"}, [][]any{{uint64(1), 1.5, int64(1000)}, {uint64(2), 2.5, int64(1000)}}
		case strings.Contains(q, "root_service_name") || strings.Contains(q, "duration_ms"):
			row := []any{"00000000000000000000000000000001", "svc", "op", int64(1700000000000000000), int64(12)}
			bad := []any{"00000000000000000000000000000002", "svc", "op", int64(1700000000000000001), null}
			if db.badCell {
				return []string{"trace_id", "root_service_name", "root_trace_name", "start_time_unix_nano", "duration_ms"}, [][]any{row, bad, row}
			}
			return []string{"trace_id", "root_service_name", "root_trace_name", "start_time_unix_nano", "duration_ms"}, [][]any{row, row}
		case strings.Contains(q, "payload_type"):
			row := []any{"0000000000000001", "00000001", "", int64(5), int64(6), int8(1), `{"name":"x"}`}
			if db.badCell {
				row[6] = null
			}
			return []string{"trace_id", "span_id", "parent_id", "timestamp_ns", "duration_ns", "payload_type", "payload"}, [][]any{row, row}
		}
		if db.badCell {
			return []string{"v"}, [][]any{{"a"}, {null}, {"c"}}
		}
		return []string{"v"}, [][]any{{"a"}, {"b"}}
	}
	reg := &vfRegistry{db}
	ctx := context.Background()
	switch vrt.Choice("service", 7) {
	case 0:
		q := &QueryLabelsService{ServiceData: model.ServiceData{Session: reg}}
		res, err := q.Labels(ctx, 1700000000000, 1700000600000, 1)
		if err == nil {
			for range res {
			}
		}
	case 1:
		q := &QueryLabelsService{ServiceData: model.ServiceData{Session: reg}}
		res, err := q.Values(ctx, "k", nil, 1700000000000, 1700000600000, 1)
		if err == nil {
			for range res {
			}
		}
	case 2:
		t := &TempoService{ServiceData: model.ServiceData{Session: reg}}
		res, err := t.Query(ctx, 1700000000000000000, 1700000600000000000, []byte("00000000000000000000000000000001"), false)
		if err == nil {
			for range res {
			}
		}
	case 3:
		t := &TempoService{ServiceData: model.ServiceData{Session: reg}}
		res, err := t.Search(ctx, "", 0, 0, 10, 1700000000000000000, 1700000600000000000)
		if err == nil {
			for range res {
			}
		}
	case 4:
		t := &TempoService{ServiceData: model.ServiceData{Session: reg}}
		res, err := t.Tags(ctx)
		if err == nil {
			for range res {
			}
		}
	case 5:
		t := &TempoService{ServiceData: model.ServiceData{Session: reg}}
		res, err := t.Values(ctx, "span.http")
		if err == nil {
			for range res {
			}
		}
	default:
		c := &CLokiQuerier{db: &model.DataDatabasesMap{Config: &config.ClokiBaseDataBase{Name: "qryn"}, Session: db}, ctx: ctx}
		set := c.Select(false, &storage.SelectHints{Start: 0, End: 200000}, &labels.Matcher{Type: labels.MatchEqual, Name: "job", Value: "a"})
		for set.Err() == nil && set.Next() {
			it := set.At().Iterator()
			for it.Next() {
			}
			_ = set.At().Labels()
		}
	}
	vrt.Reach("end")
}
