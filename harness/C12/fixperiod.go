//go:build verif

// verif:pkg reader/logql/logql_transpiler_v2
package logql_transpiler_v2

import (
	"time"

	"github.com/metrico/qryn/reader/logql/logql_transpiler_v2/shared"
	"github.com/metrico/qryn/zzverif/vrt"
)

// vpSource stands for the upstream of the matrix post-processor: it hands the harness channel through.
type vpSource struct{ ch chan []shared.LogEntry }

func (s vpSource) IsMatrix() bool { return true }
func (s vpSource) Process(ctx *shared.PlannerContext, in chan []shared.LogEntry) (chan []shared.LogEntry, error) {
	return s.ch, nil
}

// VH_C12_fixperiod_arith: the matrix post-processor every metric query_range passes through, with the
// request's start/end (whole seconds, any order) and step (milliseconds: zero, negative, huge) symbolic and
// a symbolic upstream entry. No parameter value may kill the process (the goroutine started by Process has
// no recover), hang, or leave a goroutine behind.
func VH_C12_fixperiod_arith() {
	vrt.CheckLeaks()
	vrt.Unwind(64)
	// start from a table (epoch, a typical instant not aligned to the range, near the end of the 32-bit era);
	// end = start + a window of -3..N whole seconds (reversed windows included)
	var fromSec int64
	switch vrt.Choice("start-class", 3) {
	case 0:
		fromSec = 0
	case 1:
		fromSec = 1700000003
	default:
		fromSec = 3999999990
	}
	toSec := fromSec + int64(vrt.Len("window-seconds", -3, int(vpMaxSteps())))
	vrt.Assume(toSec >= 0)
	// step: symbolic-by-symbolic 64-bit division does not finish in any available solver, so the step comes
	// from a table of representative values of each class (zero, negative, sub-second, around the 5 s range
	// duration, larger than the window); start/end/timestamps stay symbolic.
	var stepMs int64
	switch vrt.Choice("step-class", 7) {
	case 0:
		stepMs = 0
	case 1:
		stepMs = -1000
	case 2:
		stepMs = 1
	case 3:
		stepMs = 1000
	case 4:
		stepMs = 5000
	case 5:
		stepMs = 7000
	default:
		stepMs = 86400000
	}
	if vrt.KnownFinding("C12-step-not-positive", stepMs <= 0) {
		return
	}
	if vrt.KnownFinding("C12-end-before-start", toSec < fromSec) {
		return
	}
	ctx := &shared.PlannerContext{
		From: time.Unix(fromSec, 0),
		To:   time.Unix(toSec, 0),
		Step: time.Duration(stepMs) * time.Millisecond,
	}
	up := make(chan []shared.LogEntry)
	p := &FixPeriodPlanner{Main: vpSource{up}, Duration: 5 * time.Second}
	out, err := p.Process(ctx, up)
	if err != nil {
		vrt.Reach("rejected")
		return
	}
	n := vrt.Len("upstream-entries", 0, vpMaxEntries())
	go func() {
		var batch []shared.LogEntry
		for i := 0; i < n; i++ {
			ts := vrt.Int64("entry-ts-ns") // any instant from 10 s before the window to 10 s after it
			vrt.Assume(ts >= (fromSec-10)*1000000000)
			vrt.Assume(ts <= (toSec+10)*1000000000)
			batch = append(batch, shared.LogEntry{TimestampNS: ts, Fingerprint: uint64(1 + vrt.Choice("entry-series", 2)), Value: 1})
		}
		up <- batch
		close(up)
	}()
	got := 0
	for b := range out {
		got += len(b)
	}
	vrt.Reach("answered")
}

func vpMaxSteps() int64 {
	if vrt.Thorough() {
		return 24
	}
	return 6
}

func vpMaxEntries() int {
	if vrt.Thorough() {
		return 2
	}
	return 1
}
