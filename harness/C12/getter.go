//go:build verif

// verif:pkg reader/logql/logql_transpiler_v2/shared
package shared

import (
	"context"
	"io"

	"github.com/metrico/qryn/zzverif/vrt"
	"github.com/metrico/qryn/zzverif/vsql"
)

// VH_C12_getter_scan: the row scanners every LogQL request reads its ClickHouse result set with (log rows and
// matrix rows, batches of 100) over result sets whose size sits on and around the batch boundary, optionally
// broken at any of three rows: all rows arrive in order followed by exactly one end/error marker, the channel
// is closed, nothing panics (the scanner runs in a goroutine without recover) and no goroutine is left.
func VH_C12_getter_scan() {
	vrt.CheckLeaks()
	vrt.Unwind(2000)
	vrt.ConcreteUnwind(200000)
	n := []int{0, 1, 99, 100, 101, 199, 200, 201}[vrt.Choice("rows", 8)]
	matrix := vrt.Bool("matrix")
	failAt := -1
	if vrt.Bool("result-set-breaks") {
		failAt = []int{0, 100, n}[vrt.Choice("breaks-at-row", 3)]
		if failAt > n {
			failAt = n
		}
	}
	data := make([][]any, n)
	for i := range data {
		var third any = "line"
		if matrix {
			third = float64(i)
		}
		data[i] = []any{uint64(7), map[string]string{"app": "a"}, third, int64(1000 + i)}
	}
	rows := vsql.RowsFailingAt([]string{"fingerprint", "labels", "v", "timestamp_ns"}, data, failAt)
	ctx := &PlannerContext{Ctx: context.Background()}
	res := make(chan []LogEntry)
	g := &ClickhouseGetterPlanner{Matrix: matrix}
	if matrix {
		go g.ScanMatrix(ctx, rows, res)
	} else {
		go g.Scan(ctx, rows, res)
	}
	got, markers := 0, 0
	for batch := range res {
		for _, e := range batch {
			if e.Err != nil {
				vrt.Assert(e.Err == io.EOF, "marker-is-the-end-marker")
				markers++
				continue
			}
			vrt.Assert(markers == 0, "no-row-after-the-marker")
			vrt.Assert(e.TimestampNS == int64(1000+got) && e.Labels["app"] == "a", "rows-arrive-in-order-with-their-own-fields")
			got++
		}
	}
	want := n
	if failAt >= 0 && failAt < n {
		want = failAt
	}
	vrt.Assert(got == want, "every-fetched-row-handed-over-once")
	vrt.Assert(markers == 1, "exactly-one-end-marker")
	vrt.Reach("end")
}
