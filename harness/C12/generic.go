//go:build verif

// verif:pkg reader/logql/logql_transpiler_v2/internal_planner
package internal_planner

import (
	"errors"

	"github.com/metrico/qryn/reader/logql/logql_transpiler_v2/shared"
	"github.com/metrico/qryn/zzverif/vrt"
)

// vgSource is the upstream stage: a goroutine that sends `batches` messages and closes its channel
// (the row scanner of the real pipeline behaves like this and blocks on send if nobody reads).
type vgSource struct{ batches int }

func (s vgSource) IsMatrix() bool { return false }
func (s vgSource) Process(ctx *shared.PlannerContext, in chan []shared.LogEntry) (chan []shared.LogEntry, error) {
	ch := make(chan []shared.LogEntry)
	go func() {
		defer close(ch)
		for i := 0; i < s.batches; i++ {
			ch <- []shared.LogEntry{{TimestampNS: int64(i), Fingerprint: 1}}
		}
	}()
	return ch, nil
}

// VH_C12_generic_stage: every in-process pipeline stage is built on GenericPlanner.WrapProcess. Whatever
// the stage callback does with some entry - succeed, return an error midway, or panic - the consumer gets
// a closed channel in bounded time, the process survives, and no goroutine of the request stays behind
// (the upstream is drained after an error). The in-channel handed to the chain is nil, as in production.
func VH_C12_generic_stage() {
	vrt.CheckLeaks()
	vrt.Unwind(64)
	batches := vrt.Len("upstream-batches", 0, 3)
	failAt := vrt.Len("callback-fails-at-entry", 0, 3) // == batches or more: never
	mode := vrt.Choice("failure-mode", 2)            // 0 error, 1 panic
	if vrt.KnownFinding("C12-pipeline-panic-not-recovered", mode == 1 && failAt < batches) {
		return
	}
	seen := 0
	g := &GenericPlanner{Main: vgSource{batches}}
	out, err := g.WrapProcess(&shared.PlannerContext{}, nil, GenericPlannerOps{
		OnEntry: func(e *shared.LogEntry) error {
			k := seen
			seen++
			if k == failAt {
				if mode == 1 {
					panic("stage callback panicked")
				}
				return errors.New("stage failed")
			}
			return nil
		},
		OnAfterEntriesSlice: func(es []shared.LogEntry, c chan []shared.LogEntry) error {
			c <- es
			return nil
		},
		OnAfterEntries: func(c chan []shared.LogEntry) error { return nil },
	})
	vrt.Assert(err == nil, "stage-starts")
	gotErr := 0
	for b := range out {
		for _, e := range b {
			if e.Err != nil {
				gotErr++
			}
		}
	}
	if failAt < batches {
		vrt.Assert(gotErr == 1, "failure-reported-exactly-once")
	} else {
		vrt.Assert(gotErr == 0, "no-error-without-failure")
	}
	vrt.Reach("end")
}
