//go:build verif

// verif:pkg writer/utils/unmarshal
package unmarshal

import (
	"time"

	"github.com/ClickHouse/ch-go/proto"
	"github.com/metrico/qryn/reader/logql/logql_transpiler_v2/shared"
	"github.com/metrico/qryn/reader/traceql/transpiler/clickhouse_transpiler"
	sql "github.com/metrico/qryn/reader/utils/sql_select"
	"github.com/metrico/qryn/zzverif/vlib"
	"github.com/metrico/qryn/zzverif/vrt"
)

func vtFlatten(c sql.SQLCondition, out *[]sql.SQLCondition) {
	if c == nil {
		return
	}
	if c.GetFunction() == "and" {
		for _, e := range c.GetEntity() {
			if sub, ok := e.(sql.SQLCondition); ok {
				vtFlatten(sub, out)
			}
		}
		return
	}
	*out = append(*out, c)
}

// VH_C13_trace_index_arith: writer and reader together. The writer stores a span tag row with the date its
// process computes for the span's start (real onSpan + the ClickHouse client's Date conversion); the
// TraceQL index statement (real InitIndexPlanner, and SelectTagsPlanner on top of it) for any window [from, to) containing that start must
// admit the row: date bounds cover the stored date, timestamp bounds are exactly the window. The writer's
// zone is the symbolic process zone; the reader runs either in the same zone or in another whole-hour zone.
func VH_C13_trace_index_arith() {
	vrt.Unwind(300)
	vrt.SymbolicTZ()
	from, to, ts := vrt.Int64("from-seconds"), vrt.Int64("to-seconds"), vrt.Int64("span-start-seconds")
	vrt.Assume(from >= 1000000000)
	vrt.Assume(from < 4000000000) // implied; stated for the engine's interval reasoning
	vrt.Assume(ts >= 1000000000)
	vrt.Assume(ts < 4000000000)
	vrt.Assume(to >= 1000000000)
	vrt.Assume(to < 4000000000)
	vrt.Assume(from <= ts)
	vrt.Assume(ts < to)

	// writer
	pd := &parserDoer{payloadType: 1}
	pd.resetSpans()
	err := pd.onSpan(make([]byte, 16), make([]byte, 8), ts*1000000000, 1, "", "op", "svc", nil, []string{"k"}, []string{"v"})
	vrt.Assert(err == nil, "span-accepted")
	vrt.Assert(len(pd.attrs.MDate) == 1, "one-tag-row")
	var col proto.ColDate
	col.Append(pd.attrs.MDate[0]) // what service.DateAppender does with the column
	stored := int64(col[0])

	// reader
	rf, rt := time.Unix(from, 0), time.Unix(to, 0)
	sameZone := vrt.Bool("reader-in-the-writers-zone")
	if !sameZone {
		roff := vrt.Int64("reader-zone-offset-hours")
		vrt.Assume(roff >= -12)
		vrt.Assume(roff <= 14)
		z := time.FixedZone("R", int(roff)*3600)
		rf, rt = rf.In(z), rt.In(z)
	}
	if vrt.KnownFinding("C13-trace-tag-date-writer-zone-vs-reader-zone", !sameZone) {
		return
	}
	ctx := &shared.PlannerContext{From: rf, To: rt, TracesAttrsTable: "tempo_traces_attrs_gin",
		TracesAttrsDistTable: "tempo_traces_attrs_gin_dist", TracesTable: "tempo_traces", CHSqlCtx: sql.DefaultCtx()}
	var planner shared.SQLRequestPlanner = clickhouse_transpiler.NewInitIndexPlanner(vrt.Bool("clustered"))
	if vrt.Bool("tag-names-statement") {
		// the statement of the tag-name search reads the same index once more, on top of the span selection
		planner = &clickhouse_transpiler.SelectTagsPlanner{Main: planner}
	}
	sel, err := planner.Process(ctx)
	vrt.Assert(err == nil, "index-statement-built")
	var conds []sql.SQLCondition
	vtFlatten(sel.GetPreWhere(), &conds)
	vtFlatten(sel.GetWhere(), &conds)
	dlo, dhi, tlo, thi := false, false, false, false
	for _, c := range conds {
		ent := c.GetEntity()
		if len(ent) != 2 {
			continue
		}
		l, _ := ent[0].String(sql.DefaultCtx())
		r, _ := ent[1].String(sql.DefaultCtx())
		switch l {
		case "date":
			vrt.Assert(len(r) > 2, "date-literal")
			day := vlib.DayOf(r[1 : len(r)-1])
			vrt.Assert(day >= 0, "date-literal-well-formed")
			switch c.GetFunction() {
			case ">=":
				vrt.Assert(day <= stored, "index-lower-date-bound-admits-the-stored-row")
				dlo = true
			case "<=":
				vrt.Assert(day >= stored, "index-upper-date-bound-admits-the-stored-row")
				dhi = true
			case "==":
				vrt.Assert(day == stored, "index-date-equality-admits-the-stored-row")
				dlo, dhi = true, true
			default:
				vrt.Assert(false, "date-bound-operator")
			}
		case "traces_idx.timestamp_ns":
			v := vlib.ParseDecimal(r)
			switch c.GetFunction() {
			case ">=":
				vrt.Assert(v == from*1000000000, "index-lower-time-bound-is-the-window-start")
				tlo = true
			case "<":
				vrt.Assert(v == to*1000000000, "index-upper-time-bound-is-the-window-end")
				thi = true
			default:
				vrt.Assert(false, "time-bound-operator")
			}
		}
	}
	vrt.Assert(dlo && dhi, "index-read-bounded-by-date")
	vrt.Assert(tlo && thi, "index-read-bounded-by-time")
	vrt.Reach("end")
}
