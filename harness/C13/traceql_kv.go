//go:build verif

// verif:pkg reader/traceql/transpiler/clickhouse_transpiler
package clickhouse_transpiler

import (
	"time"

	"github.com/metrico/qryn/reader/logql/logql_transpiler_v2/shared"
	sql "github.com/metrico/qryn/reader/utils/sql_select"
	"github.com/metrico/qryn/zzverif/vlib"
	"github.com/metrico/qryn/zzverif/vrt"
)

func vkFlatten(c sql.SQLCondition, out *[]sql.SQLCondition) {
	if c == nil {
		return
	}
	if c.GetFunction() == "and" {
		for _, e := range c.GetEntity() {
			if sub, ok := e.(sql.SQLCondition); ok {
				vkFlatten(sub, out)
			}
		}
		return
	}
	*out = append(*out, c)
}

// VH_C13_trace_kv_arith: the statements of the trace tag-name and tag-value listings (AllTagsRequestPlanner,
// AllValuesRequestPlanner) read the key/value index by inclusive date bounds that cover the window in UTC days.
func VH_C13_trace_kv_arith() {
	vrt.Unwind(300)
	vrt.SymbolicTZ()
	from, to := vrt.Int64("from-seconds"), vrt.Int64("to-seconds")
	vrt.Assume(from >= 1000000000)
	vrt.Assume(from < 4000000000)
	vrt.Assume(to >= 1000000000)
	vrt.Assume(to < 4000000000)
	vrt.Assume(from <= to)
	ctx := &shared.PlannerContext{From: time.Unix(from, 0), To: time.Unix(to, 0), CHSqlCtx: sql.DefaultCtx(),
		TracesKVTable: "tempo_traces_kv", TracesKVDistTable: "tempo_traces_kv"}
	var p shared.SQLRequestPlanner = &AllTagsRequestPlanner{}
	if vrt.Bool("values-listing") {
		p = &AllValuesRequestPlanner{Key: "k"}
	}
	sel, err := p.Process(ctx)
	vrt.Assert(err == nil, "statement-built")
	var conds []sql.SQLCondition
	vkFlatten(sel.GetPreWhere(), &conds)
	vkFlatten(sel.GetWhere(), &conds)
	lo, hi := false, false
	for _, c := range conds {
		ent := c.GetEntity()
		if len(ent) != 2 {
			continue
		}
		l, _ := ent[0].String(sql.DefaultCtx())
		if l != "date" {
			continue
		}
		r, _ := ent[1].String(sql.DefaultCtx())
		vrt.Assert(len(r) > 2, "date-literal")
		day := vlib.DayOf(r[1 : len(r)-1])
		vrt.Assert(day >= 0, "date-literal-well-formed")
		switch c.GetFunction() {
		case ">=":
			vrt.Assert(day <= from/86400, "index-lower-date-bound-covers-the-window-start")
			vrt.Assert(day >= from/86400-1, "index-lower-date-bound-not-wider-than-one-day")
			lo = true
		case "<=":
			vrt.Assert(day >= to/86400, "index-upper-date-bound-covers-the-window-end")
			vrt.Assert(day <= to/86400+1, "index-upper-date-bound-not-wider-than-one-day")
			hi = true
		default:
			vrt.Assert(false, "date-bound-inclusive")
		}
	}
	vrt.Assert(lo && hi, "index-read-bounded-by-date-on-both-sides")
	vrt.Reach("end")
}

