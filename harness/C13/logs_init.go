//go:build verif

// verif:pkg reader/logql/logql_transpiler_v2/clickhouse_planner
package clickhouse_planner

import (
	"time"

	"github.com/metrico/qryn/reader/logql/logql_transpiler_v2/shared"
	sql "github.com/metrico/qryn/reader/utils/sql_select"
	"github.com/metrico/qryn/zzverif/vlib"
	"github.com/metrico/qryn/zzverif/vrt"
)

// vwFlatten lists the operands of a (nested) AND condition.
func vwFlatten(c sql.SQLCondition, out *[]sql.SQLCondition) {
	if c == nil {
		return
	}
	if c.GetFunction() == "and" {
		for _, e := range c.GetEntity() {
			if sub, ok := e.(sql.SQLCondition); ok {
				vwFlatten(sub, out)
			}
		}
		return
	}
	*out = append(*out, c)
}

// vwPredicates returns the comparison operators applied to `column` with their rendered right-hand side,
// and whether a `type IN (...)` predicate is present, among the statement's own PREWHERE/WHERE conjuncts.
func vwPredicates(sel sql.ISelect, column string) (ops []string, rhs []string, typeIn string) {
	var conds []sql.SQLCondition
	vwFlatten(sel.GetPreWhere(), &conds)
	vwFlatten(sel.GetWhere(), &conds)
	for _, c := range conds {
		ent := c.GetEntity()
		if c.GetFunction() == "IN" {
			l, _ := ent[0].String(sql.DefaultCtx())
			if l == "type" {
				typeIn, _ = c.String(sql.DefaultCtx())
			}
			continue
		}
		if len(ent) != 2 {
			continue
		}
		l, _ := ent[0].String(sql.DefaultCtx())
		if l == column {
			r, _ := ent[1].String(sql.DefaultCtx())
			ops = append(ops, c.GetFunction())
			rhs = append(rhs, r)
		}
	}
	return
}

func vwCtx() (*shared.PlannerContext, int64, int64) {
	from := vrt.Int64("from-seconds")
	to := vrt.Int64("to-seconds")
	vrt.Assume(from >= 1000000000) // 2001..2096: 10-digit seconds
	vrt.Assume(from < 4000000000)  // implied; stated for the engine's interval reasoning
	vrt.Assume(to >= 1000000000)
	vrt.Assume(to < 4000000000)
	vrt.Assume(from <= to)
	ctx := &shared.PlannerContext{
		From: time.Unix(from, 0), To: time.Unix(to, 0),
		SamplesTableName: "samples_v3", TimeSeriesDistTableName: "time_series", TimeSeriesTableName: "time_series",
		TimeSeriesGinTableName: "time_series_gin", CHSqlCtx: sql.DefaultCtx(),
		Type: uint8(vrt.Choice("api-signal", 3)), // 0 both(logs api), 1 logs, 2 metrics
	}
	if vrt.Bool("clustered") {
		ctx.IsCluster = true
		ctx.SamplesTableName, ctx.TimeSeriesDistTableName = "samples_v3_dist", "time_series_dist"
	}
	return ctx, from, to
}

// VH_C13_logs_init_arith: the statements with which every LogQL request first reads the sample table and
// the series index are confined to the requested window and signal: samples by [from, to) in nanoseconds
// exactly, the index by a lower date bound that covers the window (not later than the UTC day of `from`,
// not earlier than the day before), and both by type IN (signal, both). Writer/reader zone is symbolic.
func VH_C13_logs_init_arith() {
	vrt.Unwind(300)
	vrt.SymbolicTZ()
	ctx, from, to := vwCtx()
	wantType := "type IN (1,0)"
	if ctx.Type == 2 {
		wantType = "type IN (2,0)"
	}

	main, err := NewSQLMainInitPlanner().Process(ctx)
	vrt.Assert(err == nil, "samples-statement-built")
	ops, rhs, typeIn := vwPredicates(main, "samples.timestamp_ns")
	lo, hi := false, false
	for i, op := range ops {
		v := vlib.ParseDecimal(rhs[i])
		switch op {
		case ">=", ">":
			vrt.Assert(v == from*1000000000, "sample-lower-bound-is-the-window-start")
			lo = true
		case "<", "<=":
			vrt.Assert(v == to*1000000000, "sample-upper-bound-is-the-window-end")
			hi = true
		}
	}
	vrt.Assert(lo, "samples-read-has-a-lower-time-bound")
	vrt.Assert(hi, "samples-read-has-an-upper-time-bound")
	vrt.Assert(typeIn == wantType, "samples-read-restricted-to-the-api-signal")

	ts, err := NewTimeSeriesInitPlanner().Process(ctx)
	vrt.Assert(err == nil, "series-statement-built")
	ops, rhs, typeIn = vwPredicates(ts, "time_series.date")
	lo = false
	for i, op := range ops {
		if op == ">=" || op == ">" {
			vrt.Assert(len(rhs[i]) > 2, "date-literal")
			day := vlib.DayOf(rhs[i][1 : len(rhs[i])-1]) // strip the quotes of the SQL literal
			vrt.Assert(day >= 0, "date-literal-well-formed")
			vrt.Assert(day <= from/86400, "index-lower-date-bound-covers-the-window-start")
			vrt.Assert(day >= from/86400-1, "index-lower-date-bound-not-wider-than-one-day")
			vrt.Assert(op == ">=", "index-lower-date-bound-inclusive")
			lo = true
		}
	}
	vrt.Assert(lo, "series-index-read-has-a-lower-date-bound")
	vrt.Assert(typeIn == wantType, "series-index-read-restricted-to-the-api-signal")

	// the series-selection statement (LogQL selectors, Prometheus matchers, profile selectors)
	ss, err := NewStreamSelectPlanner([]string{"app"}, []string{"="}, []string{"x"}).Process(ctx)
	vrt.Assert(err == nil, "selector-statement-built")
	ops, rhs, typeIn = vwPredicates(ss, "date")
	lo = false
	for i, op := range ops {
		if op == ">=" || op == ">" {
			day := vlib.DayOf(rhs[i][1 : len(rhs[i])-1])
			vrt.Assert(day >= 0 && day <= from/86400 && day >= from/86400-1, "selector-index-lower-date-bound-covers-the-window-start")
			vrt.Assert(op == ">=", "selector-index-lower-date-bound-inclusive")
			lo = true
		}
	}
	vrt.Assert(lo, "selector-index-read-has-a-lower-date-bound")
	vrt.Assert(typeIn == wantType, "selector-index-read-restricted-to-the-api-signal")
	vrt.Reach("end")
}

// vwDateBounds checks the index date predicates of one statement: an inclusive lower bound on the UTC day
// of `from` or the day before, and - when present - an upper bound that is not earlier than the UTC day of
// `to` (index rows carry the UTC day of the sample) and not later than the day after.
func vwDateBounds(sel sql.ISelect, column string, from, to int64, needUpper bool, what string) {
	ops, rhs, _ := vwPredicates(sel, column)
	lo, hi := false, false
	for i, op := range ops {
		vrt.Assert(len(rhs[i]) > 2, what+"-date-literal")
		day := vlib.DayOf(rhs[i][1 : len(rhs[i])-1])
		vrt.Assert(day >= 0, what+"-date-literal-well-formed")
		switch op {
		case ">=", ">":
			vrt.Assert(day <= from/86400, what+"-index-lower-date-bound-covers-the-window-start")
			vrt.Assert(day >= from/86400-1, what+"-index-lower-date-bound-not-wider-than-one-day")
			vrt.Assert(op == ">=", what+"-index-lower-date-bound-inclusive")
			lo = true
		case "<=", "<":
			vrt.Assert(day >= to/86400, what+"-index-upper-date-bound-covers-the-window-end")
			vrt.Assert(day <= to/86400+1, what+"-index-upper-date-bound-not-wider-than-one-day")
			vrt.Assert(op == "<=", what+"-index-upper-date-bound-inclusive")
			hi = true
		}
	}
	vrt.Assert(lo, what+"-index-read-has-a-lower-date-bound")
	if needUpper {
		vrt.Assert(hi, what+"-index-read-has-an-upper-date-bound")
	}
}

// VH_C13_series_values_arith: the statements of the series and label-values endpoints (with and without
// match[] selectors) read the label index by a date range that covers the window in UTC days - for every
// window and every whole-hour process zone - and by type IN (signal, both).
func VH_C13_series_values_arith() {
	vrt.Unwind(300)
	vrt.SymbolicTZ()
	ctx, from, to := vwCtx()
	wantType := "type IN (1,0)"
	if ctx.Type == 2 {
		wantType = "type IN (2,0)"
	}
	var fp shared.SQLRequestPlanner
	if vrt.Bool("with-selector") {
		fp = NewStreamSelectPlanner([]string{"app"}, []string{"="}, []string{"x"})
	}
	if vrt.Bool("series-endpoint") {
		if fp == nil {
			fp = NewStreamSelectPlanner([]string{"app"}, []string{"!="}, []string{""})
		}
		sel, err := (&SeriesPlanner{FingerprintsPlanner: fp}).Process(ctx)
		vrt.Assert(err == nil, "series-statement-built")
		vwDateBounds(sel, "date", from, to, true, "series")
		_, _, typeIn := vwPredicates(sel, "date")
		vrt.Assert(typeIn == wantType, "series-read-restricted-to-the-api-signal")
		want := "time_series"
		if ctx.IsCluster {
			want = "time_series_dist"
		}
		tbl, _ := sel.GetFrom().String(sql.DefaultCtx())
		vrt.Assert(tbl == want+" as time_series" || tbl == want+" AS time_series", "series-read-from-the-layout's-table")
	} else {
		sel, err := (&ValuesPlanner{FingerprintsPlanner: fp, Key: "k"}).Process(ctx)
		vrt.Assert(err == nil, "values-statement-built")
		vwDateBounds(sel, "date", from, to, true, "values")
		_, _, typeIn := vwPredicates(sel, "date")
		vrt.Assert(typeIn == wantType, "values-read-restricted-to-the-api-signal")
	}
	vrt.Reach("end")
}
