//go:build verif

// verif:pkg reader/tempo
package tempo

import (
	"context"

	sql "github.com/metrico/qryn/reader/utils/sql_select"
	"github.com/metrico/qryn/zzverif/vlib"
	"github.com/metrico/qryn/zzverif/vrt"
)

// VH_C13_tempo_search: the statement of the trace search endpoint (GetTracesQuery), with and without a tag
// filter, single-node and clustered: the read of the trace table is bounded by the requested window -
// start_time_unix_nano above the window start and not above its end - whatever the tag index sub-select does.
func VH_C13_tempo_search() {
	vrt.Unwind(300)
	from, to := vrt.Int64("from-ns"), vrt.Int64("to-ns")
	vrt.Assume(from >= 1000000000000000000)
	vrt.Assume(from < 1800000000000000000)
	vrt.Assume(to >= 1000000000000000000)
	vrt.Assume(to < 1800000000000000000)
	vrt.Assume(from <= to)
	var idx *SQLIndexQuery
	if vrt.Bool("tag-filter") {
		idx = &SQLIndexQuery{Tags: "service.name=a", FromNS: from, ToNS: to}
	}
	sel, err := GetTracesQuery(context.Background(), idx, 20, from, to, vrt.Bool("clustered"), 0, 0)
	vrt.Assert(err == nil, "statement-built")
	var conds []sql.SQLCondition
	var flat func(c sql.SQLCondition)
	flat = func(c sql.SQLCondition) {
		if c == nil {
			return
		}
		if c.GetFunction() == "and" {
			for _, e := range c.GetEntity() {
				if sub, ok := e.(sql.SQLCondition); ok {
					flat(sub)
				}
			}
			return
		}
		conds = append(conds, c)
	}
	flat(sel.GetWhere())
	lo, hi := false, false
	for _, c := range conds {
		ent := c.GetEntity()
		if len(ent) != 2 || c.GetFunction() == "IN" {
			continue
		}
		l, _ := ent[0].String(sql.DefaultCtx())
		if l != "start_time_unix_nano" {
			continue
		}
		r, _ := ent[1].String(sql.DefaultCtx())
		v := vlib.ParseDecimal(r)
		switch c.GetFunction() {
		case ">", ">=":
			vrt.Assert(v == from, "span-lower-time-bound-is-the-window-start")
			lo = true
		case "<=", "<":
			vrt.Assert(v == to, "span-upper-time-bound-is-the-window-end")
			hi = true
		}
	}
	vrt.Assert(lo && hi, "trace-table-read-bounded-by-the-window")
	vrt.Reach("end")
}
