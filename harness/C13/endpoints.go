//go:build verif

// verif:pkg reader/service
package service

import (
	"context"
	"database/sql"
	"strings"

	"github.com/metrico/cloki-config/config"
	"github.com/metrico/qryn/reader/model"
	"github.com/metrico/qryn/zzverif/vlib"
	"github.com/metrico/qryn/zzverif/vrt"
	"github.com/metrico/qryn/zzverif/vsql"
	"github.com/prometheus/prometheus/model/labels"
	"github.com/prometheus/prometheus/storage"
)

// a database that records every statement it is asked to run and answers with empty result sets
type veDB struct{ stmts []string }

func (d *veDB) GetName() string { return "scripted-c13" }
func (d *veDB) QueryCtx(ctx context.Context, query string, args ...any) (*sql.Rows, error) {
	d.stmts = append(d.stmts, query)
	switch {
	case strings.HasPrefix(query, "SELECT argMax(name"):
		return vsql.Rows([]string{"_name", "_value"}, nil), nil
	}
	return vsql.Rows([]string{"v"}, nil), nil
}
func (d *veDB) ExecCtx(ctx context.Context, query string, args ...any) error { return nil }
func (d *veDB) Conn(ctx context.Context) (*sql.Conn, error)                    { return nil, nil }
func (d *veDB) Begin() (*sql.Tx, error)                                        { return nil, nil }
func (d *veDB) Close()                                                         {}

type veRegistry struct {
	db      *veDB
	cluster string
}

func (r *veRegistry) GetDB(ctx context.Context) (*model.DataDatabasesMap, error) {
	return &model.DataDatabasesMap{Config: &config.ClokiBaseDataBase{ClusterName: r.cluster, Name: "qryn"}, Session: r.db}, nil
}
func (r *veRegistry) Run()        {}
func (r *veRegistry) Stop()       {}
func (r *veRegistry) Ping() error { return nil }

// veDatePredicates scans the tokens of an executed statement for `date <op> '<day>'` predicates and for
// `type IN (a, b)`.
func veDatePredicates(stmt string) (ops []string, days []int64, typeIn string, ok bool) {
	toks, lexed := vlib.SQLLex(stmt)
	if !lexed {
		return nil, nil, "", false
	}
	for i := 0; i < len(toks); i++ {
		if toks[i].Kind != 'I' {
			continue
		}
		if toks[i].Text == "date" {
			j := i + 1
			for j < len(toks) && toks[j].Kind == 'P' && toks[j].Text == ")" {
				j++
			}
			op := ""
			for j < len(toks) && toks[j].Kind == 'P' && (toks[j].Text == "<" || toks[j].Text == ">" || toks[j].Text == "=") {
				op += toks[j].Text
				j++
			}
			for j < len(toks) && toks[j].Kind == 'P' && toks[j].Text == "(" {
				j++
			}
			if op != "" && j < len(toks) && toks[j].Kind == 'S' {
				ops = append(ops, op)
				days = append(days, vlib.DayOf(toks[j].Text))
			}
		}
		if toks[i].Text == "type" && i+6 < len(toks) && toks[i+1].Text == "IN" {
			typeIn = toks[i+3].Text + "," + toks[i+5].Text
		}
	}
	return ops, days, typeIn, true
}

// VH_C13_label_endpoints_arith: the statements the labels and label-values endpoints actually send to the
// database (recorded by a scripted database behind the real service code): for every window given in
// milliseconds, every whole-hour process zone, both table layouts and both signals, the statement reads the
// label index with inclusive date bounds that cover the window in UTC days and with type IN (signal, 0).
func VH_C13_label_endpoints_arith() {
	vrt.Unwind(2000)
	vrt.SymbolicTZ()
	from, to := vrt.Int64("from-seconds"), vrt.Int64("to-seconds")
	vrt.Assume(from >= 1000000000)
	vrt.Assume(from < 4000000000) // implied by the next three; stated so that the engine's interval reasoning sees it
	vrt.Assume(to >= 1000000000)
	vrt.Assume(to < 4000000000)
	vrt.Assume(from <= to)
	ms := []int64{0, 1, 999}[vrt.Choice("millisecond-part", 3)]
	startMs, endMs := from*1000+ms, to*1000+ms
	signal := uint16(1 + vrt.Choice("api-signal", 2))
	db := &veDB{}
	reg := &veRegistry{db: db}
	if vrt.Bool("clustered") {
		reg.cluster = "c1"
	}
	q := &QueryLabelsService{ServiceData: model.ServiceData{Session: reg}}
	var res chan string
	var err error
	if vrt.Bool("values-endpoint") {
		res, err = q.Values(context.Background(), "k", nil, startMs, endMs, signal)
	} else {
		res, err = q.Labels(context.Background(), startMs, endMs, signal)
	}
	vrt.Assert(err == nil, "request-served")
	for range res {
	}
	vrt.Assert(len(db.stmts) >= 1, "a-statement-was-sent")
	stmt := db.stmts[len(db.stmts)-1]
	ops, days, typeIn, ok := veDatePredicates(stmt)
	vrt.Assert(ok, "statement-lexes")
	lo, hi := false, false
	for i, op := range ops {
		vrt.Assert(days[i] >= 0, "date-literal-well-formed")
		switch op {
		case ">=":
			vrt.Assert(days[i] <= from/86400, "index-lower-date-bound-covers-the-window-start")
			vrt.Assert(days[i] >= from/86400-1, "index-lower-date-bound-not-wider-than-one-day")
			lo = true
		case "<=":
			vrt.Assert(days[i] >= to/86400, "index-upper-date-bound-covers-the-window-end")
			vrt.Assert(days[i] <= to/86400+1, "index-upper-date-bound-not-wider-than-one-day")
			hi = true
		default:
			vrt.Assert(false, "date-bound-inclusive")
		}
	}
	vrt.Assert(lo && hi, "index-read-bounded-by-date-on-both-sides")
	want := "1,0"
	if signal == 2 {
		want = "2,0"
	}
	vrt.Assert(typeIn == want, "index-read-restricted-to-the-api-signal")
	vrt.Reach("end")
}

// veTimePredicates scans an executed statement for `samples.timestamp_ns <op> <number>` predicates.
func veTimePredicates(stmt string) (ops []string, vals []int64, table string, typeIn string, ok bool) {
	toks, lexed := vlib.SQLLex(stmt)
	if !lexed {
		return nil, nil, "", "", false
	}
	for i := 0; i < len(toks); i++ {
		if toks[i].Kind != 'I' {
			continue
		}
		if toks[i].Text == "timestamp_ns" && i >= 2 && toks[i-1].Text == "." && toks[i-2].Text == "samples" {
			j := i + 1
			for j < len(toks) && toks[j].Kind == 'P' && toks[j].Text == ")" {
				j++
			}
			op := ""
			for j < len(toks) && toks[j].Kind == 'P' && (toks[j].Text == "<" || toks[j].Text == ">" || toks[j].Text == "=") {
				op += toks[j].Text
				j++
			}
			for j < len(toks) && toks[j].Kind == 'P' && toks[j].Text == "(" {
				j++
			}
			if op != "" && j < len(toks) && toks[j].Kind == 'N' {
				ops = append(ops, op)
				vals = append(vals, vlib.ParseDecimal(toks[j].Text))
			}
		}
		if toks[i].Text == "type" && i+6 < len(toks) && toks[i+1].Text == "IN" && typeIn == "" {
			typeIn = toks[i+3].Text + "," + toks[i+5].Text
		}
		if (toks[i].Text == "FROM" || toks[i].Text == "from") && i+3 < len(toks) && table == "" &&
			(toks[i+2].Text == "samples" || (toks[i+2].Text == "as" || toks[i+2].Text == "AS") && toks[i+3].Text == "samples") {
			table = toks[i+1].Text
		}
	}
	return ops, vals, table, typeIn, true
}

// VH_C13_prom_select_arith: the statement a Prometheus select (the storage.Querier behind query, query_range
// and remote read) sends to the database, through the real CLokiQuerier.Select: for every hint window in
// milliseconds, steps / ranges / functions from tables that reach both the raw-sample and the 15-second
// table, the sample read is bounded by exactly (start, end] in nanoseconds and by type IN (2, 0).
func VH_C13_prom_select_arith() {
	vrt.Unwind(3000)
	from, to := vrt.Int64("start-seconds"), vrt.Int64("end-seconds")
	vrt.Assume(from >= 1000000000)
	vrt.Assume(from < 4000000000) // implied by the next three; stated so that the engine's interval reasoning sees it
	vrt.Assume(to >= 1000000000)
	vrt.Assume(to < 4000000000)
	vrt.Assume(from <= to)
	ms := []int64{0, 999}[vrt.Choice("millisecond-part", 2)]
	// step / range / function triples that reach the raw-sample path, the 15-second path (when the start is a
	// multiple of 15 s: decided by the solver), the instant and range-vector hint rewrites
	type shape struct {
		step, rng int64
		fn        string
	}
	shapes := []shape{{0, 0, ""}, {15000, 0, ""}, {60000, 60000, "rate"}, {60000, 5000, "sum_over_time"}}
	if vrt.Thorough() {
		shapes = append(shapes, shape{1000, 0, "abs"}, shape{15000, 0, "quantile_over_time"}, shape{60000, 60000, "count_over_time"})
	}
	sh := shapes[vrt.Choice("step-range-function", len(shapes))]
	hints := &storage.SelectHints{Start: from*1000 + ms, End: to*1000 + ms, Step: sh.step, Range: sh.rng, Func: sh.fn}
	db := &veDB{}
	conf := &config.ClokiBaseDataBase{Name: "qryn"}
	if vrt.Bool("clustered") {
		conf.ClusterName = "c1"
	}
	c := &CLokiQuerier{db: &model.DataDatabasesMap{Config: conf, Session: db}, ctx: context.Background()}
	set := c.Select(false, hints, &labels.Matcher{Type: labels.MatchEqual, Name: "job", Value: "x"})
	vrt.Assert(set.Err() == nil, "select-served")
	main := ""
	for _, s := range db.stmts {
		if strings.Contains(s, "samples.timestamp_ns") {
			main = s
		}
	}
	vrt.Assert(main != "", "a-sample-read-was-sent")
	ops, vals, table, typeIn, ok := veTimePredicates(main)
	vrt.Assert(ok, "statement-lexes")
	lo, hi := false, false
	for i, op := range ops {
		switch op {
		case ">", ">=":
			vrt.Assert(vals[i] == hints.Start*1000000, "sample-lower-bound-is-the-hinted-start")
			lo = true
		case "<=", "<":
			vrt.Assert(vals[i] == hints.End*1000000, "sample-upper-bound-is-the-hinted-end")
			hi = true
		}
	}
	vrt.Assert(lo && hi, "sample-read-bounded-on-both-sides")
	vrt.Assert(typeIn == "2,0", "sample-read-restricted-to-metrics")
	_ = table
	vrt.Reach("end")
}
