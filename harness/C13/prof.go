//go:build verif

// verif:pkg reader/prof/transpiler
package transpiler

import (
	"time"

	"github.com/metrico/qryn/reader/logql/logql_transpiler_v2/shared"
	sql "github.com/metrico/qryn/reader/utils/sql_select"
	"github.com/metrico/qryn/zzverif/vlib"
	"github.com/metrico/qryn/zzverif/vrt"
)

func vpFlatten(c sql.SQLCondition, out *[]sql.SQLCondition) {
	if c == nil {
		return
	}
	if c.GetFunction() == "and" {
		for _, e := range c.GetEntity() {
			if sub, ok := e.(sql.SQLCondition); ok {
				vpFlatten(sub, out)
			}
		}
		return
	}
	*out = append(*out, c)
}

// VH_C13_prof_index_arith: the statements with which the profile endpoints (select merge, series, label
// names / values, select all series) read the profile series index: inclusive date bounds that cover the
// window in UTC days - for every window and every whole-hour process zone.
func VH_C13_prof_index_arith() {
	vrt.Unwind(300)
	vrt.SymbolicTZ()
	from, to := vrt.Int64("from-seconds"), vrt.Int64("to-seconds")
	vrt.Assume(from >= 1000000000)
	vrt.Assume(from < 4000000000)
	vrt.Assume(to >= 1000000000)
	vrt.Assume(to < 4000000000)
	vrt.Assume(from <= to)
	ctx := &shared.PlannerContext{From: time.Unix(from, 0), To: time.Unix(to, 0), CHSqlCtx: sql.DefaultCtx(),
		ProfilesSeriesGinTable: "profiles_series_gin", ProfilesSeriesGinDistTable: "profiles_series_gin",
		ProfilesSeriesTable: "profiles_series", ProfilesSeriesDistTable: "profiles_series"}
	fp := &StreamSelectorPlanner{}
	var p shared.SQLRequestPlanner
	switch vrt.Choice("statement", 5) {
	case 0:
		p = fp
	case 1:
		p = &AllTimeSeriesSelectPlanner{}
	case 2:
		p = &TimeSeriesSelectPlanner{Fp: fp}
	case 3:
		p = &GetLabelsPlanner{FP: fp}
	default:
		p = &LabelNamesPlanner{GenericLabelsPlanner{Fingerprints: fp}}
	}
	sel, err := p.Process(ctx)
	vrt.Assert(err == nil, "statement-built")
	var conds []sql.SQLCondition
	vpFlatten(sel.GetPreWhere(), &conds)
	vpFlatten(sel.GetWhere(), &conds)
	lo, hi := false, false
	for _, c := range conds {
		ent := c.GetEntity()
		if len(ent) != 2 {
			continue
		}
		l, _ := ent[0].String(sql.DefaultCtx())
		if l != "date" {
			continue
		}
		r, _ := ent[1].String(sql.DefaultCtx())
		vrt.Assert(len(r) > 2, "date-literal")
		day := vlib.DayOf(r[1 : len(r)-1])
		vrt.Assert(day >= 0, "date-literal-well-formed")
		switch c.GetFunction() {
		case ">=":
			vrt.Assert(day <= from/86400, "index-lower-date-bound-covers-the-window-start")
			vrt.Assert(day >= from/86400-1, "index-lower-date-bound-not-wider-than-one-day")
			lo = true
		case "<=":
			vrt.Assert(day >= to/86400, "index-upper-date-bound-covers-the-window-end")
			vrt.Assert(day <= to/86400+1, "index-upper-date-bound-not-wider-than-one-day")
			hi = true
		default:
			vrt.Assert(false, "date-bound-inclusive")
		}
	}
	vrt.Assert(lo && hi, "index-read-bounded-by-date-on-both-sides")
	vrt.Reach("end")
}
