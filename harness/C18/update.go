//go:build verif

// verif:pkg ctrl/qryn/maintenance
package maintenance

import (
	"context"
	"errors"
	"strings"

	"github.com/ClickHouse/clickhouse-go/v2/lib/driver"
	"github.com/metrico/qryn/ctrl/qryn/sql"
	"github.com/metrico/qryn/zzverif/vrt"
)

// vuConn: the database as schema initialisation sees it: the `ver` table (max version per stream), the
// ordered list of executed statements, and a fault schedule.
type vuConn struct {
	driver.Conn
	calls     int
	failAt    int
	failed    bool
	afterFail int
	ver       map[int64]uint64
	log       []vuEvent
}

type vuEvent struct {
	kind byte // 's' script, 'v' version write, 'b' bookkeeping (CREATE TABLE ver...)
	text string
	k    int64
	ver  uint64
}

func (c *vuConn) step() error {
	if c.failed {
		c.afterFail++
	}
	n := c.calls
	c.calls++
	if n == c.failAt {
		c.failed = true
		return errors.New("clickhouse: fault injected")
	}
	return nil
}

func (c *vuConn) Exec(ctx context.Context, q string, args ...any) error {
	if err := c.step(); err != nil {
		return err
	}
	switch {
	case strings.HasPrefix(q, "INSERT INTO ver "):
		k, v := args[0].(int64), args[1].(uint64)
		if v > c.ver[k] {
			c.ver[k] = v
		}
		c.log = append(c.log, vuEvent{kind: 'v', k: k, ver: v})
	case strings.HasPrefix(q, "CREATE TABLE IF NOT EXISTS ver"):
		c.log = append(c.log, vuEvent{kind: 'b'})
	default:
		c.log = append(c.log, vuEvent{kind: 's', text: q})
	}
	return nil
}

type vuRows struct {
	driver.Rows
	v    uint64
	done bool
}

func (r *vuRows) Next() bool {
	if r.done {
		return false
	}
	r.done = true
	return true
}
func (r *vuRows) Scan(dest ...any) error { *(dest[0].(*uint64)) = r.v; return nil }
func (r *vuRows) Close() error           { return nil }

func (c *vuConn) Query(ctx context.Context, q string, args ...any) (driver.Rows, error) {
	if err := c.step(); err != nil {
		return nil, err
	}
	return &vuRows{v: c.ver[args[0].(int64)]}, nil
}

func vuLoadScripts() {
	sql.LogScript = vrt.RepoFile("ctrl/qryn/sql/log.sql")
	sql.LogDistScript = vrt.RepoFile("ctrl/qryn/sql/log_dist.sql")
	sql.TracesScript = vrt.RepoFile("ctrl/qryn/sql/traces.sql")
	sql.TracesDistScript = vrt.RepoFile("ctrl/qryn/sql/traces_dist.sql")
	sql.ProfilesScript = vrt.RepoFile("ctrl/qryn/sql/profiles.sql")
	sql.ProfilesDistScript = vrt.RepoFile("ctrl/qryn/sql/profiles_dist.sql")
}

type vuMode struct {
	mode    int
	cluster string
}

func vuPickMode() vuMode {
	switch vrt.Choice("mode", 3) {
	case 0:
		return vuMode{CLUST_MODE_SINGLE, ""}
	case 1:
		return vuMode{CLUST_MODE_CLOUD, ""}
	default:
		return vuMode{CLUST_MODE_DISTRIBUTED, "c1"}
	}
}

func vuRun(db *vuConn, m vuMode) error {
	return Update(db, "qryn", m.cluster, m.mode, 7, "", "", false, vuLog{})
}

// vuStreams: the migration streams of a mode in the order Update runs them, with their rendered scripts
// (rendered by the same template code against a recording connection).
func vuStreams(m vuMode) (ks []int64, scripts map[int64][]string) {
	ref := &vuConn{failAt: -1, ver: map[int64]uint64{}}
	if err := vuRun(ref, m); err != nil {
		panic("reference run failed")
	}
	scripts = map[int64][]string{}
	var cur []string
	for _, e := range ref.log {
		switch e.kind {
		case 's':
			cur = append(cur, e.text)
		case 'v':
			if e.ver == 1 {
				ks = append(ks, e.k)
			}
			scripts[e.k] = append(scripts[e.k], cur...)
			cur = nil
		}
	}
	return
}

// vuCheckRun checks one run's statement log against the version table it started from.
func vuCheckRun(log []vuEvent, start map[int64]uint64, scripts map[int64][]string, failed bool) {
	pending := 0
	var pendingText string
	next := map[int64]uint64{}
	for k, v := range start {
		next[k] = v
	}
	for _, e := range log {
		switch e.kind {
		case 's':
			vrt.Assert(pending == 0, "at-most-one-script-between-version-writes")
			pending++
			pendingText = e.text
		case 'v':
			vrt.Assert(pending == 1, "version-recorded-only-after-its-script-completed")
			vrt.Assert(e.ver == next[e.k]+1, "versions-advance-by-one-none-skipped")
			vrt.Assert(int(e.ver) <= len(scripts[e.k]), "version-within-the-stream")
			vrt.Assert(scripts[e.k][e.ver-1] == pendingText, "the-script-run-is-the-next-one-in-file-order")
			next[e.k] = e.ver
			pending = 0
		}
	}
	if !failed {
		vrt.Assert(pending == 0, "no-script-left-unrecorded-in-a-successful-run")
	}
}

func vuCopy(m map[int64]uint64) map[int64]uint64 {
	r := map[int64]uint64{}
	for k, v := range m {
		r[k] = v
	}
	return r
}

// VH_C18_fault_restart: initialisation fails at any statement (before a script, after it but before the
// version write, at the version write), is started again, and completes; a third start runs no script.
func VH_C18_fault_restart() {
	vrt.ConcreteUnwind(1000000)
	vrt.Steps(200000000)
	vuLoadScripts()
	m := vuPickMode()
	ks, scripts := vuStreams(m)
	total := 0
	for _, k := range ks {
		total += len(scripts[k])
	}
	vrt.Assert(total > 30, "scripts-loaded")

	db := &vuConn{ver: map[int64]uint64{}}
	maxCalls := 2*total + 4*len(ks) + 2
	db.failAt = vrt.Len("fail-at-statement", 0, maxCalls)
	start := vuCopy(db.ver)
	err := vuRun(db, m)
	if db.failed {
		vrt.Assert(err != nil, "fault-is-reported")
		vrt.Assert(db.afterFail == 0, "no-statement-after-a-failed-one")
	} else {
		vrt.Assert(err == nil, "run-without-fault-succeeds")
	}
	vuCheckRun(db.log, start, scripts, db.failed)

	// restart
	db.failAt, db.failed, db.log = -1, false, nil
	start = vuCopy(db.ver)
	vrt.Assert(vuRun(db, m) == nil, "restart-completes")
	vuCheckRun(db.log, start, scripts, false)
	for _, k := range ks {
		vrt.Assert(int(db.ver[k]) == len(scripts[k]), "every-stream-fully-applied-after-restart")
	}

	// up to date: no script
	db.log = nil
	vrt.Assert(vuRun(db, m) == nil, "third-start-succeeds")
	for _, e := range db.log {
		vrt.Assert(e.kind == 'b', "up-to-date-database-runs-no-migration-script")
	}
	vrt.Reach("end")
}

type vuLog struct{}

func (vuLog) Error(args ...any) {}
func (vuLog) Debug(args ...any) {}
func (vuLog) Info(args ...any)  {}
