//go:build verif

// verif:pkg writer/service
package service

import (
	"context"
	"errors"

	fch "github.com/ClickHouse/ch-go"
	"github.com/ClickHouse/ch-go/proto"
	"github.com/metrico/qryn/writer/ch_wrapper"
	"github.com/metrico/qryn/writer/model"
	"github.com/metrico/qryn/writer/utils/promise"
	"github.com/metrico/qryn/zzverif/vrt"
)

// vbReq is a push request: rows tagged with the request id.
type vbReq struct {
	id   uint64
	rows int
}

func (r *vbReq) GetSize() int64 { return int64(r.rows) * 8 }

// vbClient is ClickHouse as the insert service sees it: Do records which request ids were in the block
// and answers with a nondeterministic outcome; while an INSERT is in flight other clients may push.
type vbClient struct {
	ch_wrapper.IChClient
	h *vbHarness
}

type vbInsert struct {
	ids []uint64
	ok  bool
}

type vbHarness struct {
	svc      *InsertServiceV2
	inserts  []vbInsert
	promises []*promise.Promise[uint32]
	reqs     []*vbReq
	issued   int
	maxReqs  int
	healthy  bool // the database "keeps answering": no more faults
	closed   int
	inited   bool
}

func (c *vbClient) Do(ctx context.Context, q fch.Query) error {
	h := c.h
	var ids []uint64
	col := q.Input[0].Data.(*proto.ColUInt64)
	for _, v := range *col {
		ids = append(ids, v)
	}
	// a concurrent client pushes while this INSERT is in flight
	if !h.healthy && h.issued < h.maxReqs && vrt.Bool("push-during-insert") {
		h.push()
	}
	ok := h.healthy || vrt.Bool("insert-succeeds")
	h.inserts = append(h.inserts, vbInsert{ids: ids, ok: ok})
	if !ok {
		return errors.New("clickhouse: insert failed")
	}
	return nil
}
func (c *vbClient) Ping(ctx context.Context) error { return nil }
func (c *vbClient) Close() error                   { c.h.closed++; return nil }

func (h *vbHarness) push() {
	r := &vbReq{id: uint64(h.issued + 1), rows: vrt.Len("request-rows", 0, 2)}
	h.issued++
	h.reqs = append(h.reqs, r)
	h.promises = append(h.promises, h.svc.Request(r, INSERT_MODE_SYNC))
}

func vbNew(maxReqs int) *vbHarness {
	h := &vbHarness{maxReqs: maxReqs}
	h.svc = &InsertServiceV2{
		ID:           "vb",
		DatabaseNode: &model.DataDatabasesMap{},
		pushInterval: 1000000000,
		maxQueueSize: int64(vrt.Choice("max-queue-bytes", 2)) * 12, // 0 = unlimited, 12 = flush after 2 rows
		acquireColumns: func() []IColPoolRes {
			// fresh buffers are acquired while the batch is swapped; another client's push can only get in
			// here if the service mutex happens to be free at this moment (it must not be: columns, waiting
			// list and size are exchanged under one hold of the lock)
			if h.svc != nil && h.inited && !h.healthy && h.issued < h.maxReqs && h.svc.mtx.TryLock() {
				h.svc.mtx.Unlock()
				if vrt.Bool("push-while-buffers-are-acquired") {
					h.push()
				}
			}
			return []IColPoolRes{&PooledColumn[*proto.ColUInt64]{Name: "id", Data: new(proto.ColUInt64)}}
		},
		processRequest: func(r any, cols []IColPoolRes) (int, []IColPoolRes, error) {
			req := r.(*vbReq)
			c := cols[0].(*PooledColumn[*proto.ColUInt64])
			for i := 0; i < req.rows; i++ {
				c.Data.Append(req.id)
			}
			return req.rows, cols, nil
		},
	}
	h.svc.DatabaseNode.WriteTimeout = 1
	// the window between swapBuffers() and the copy of the waiting list: OnBeforeInsert runs there (in
	// production it takes another service's mutex via PlanFlush), so another client can push meanwhile
	h.svc.OnBeforeInsert = func() {
		if !h.healthy && h.issued < h.maxReqs && vrt.Bool("push-before-insert") {
			h.push()
		}
	}
	h.svc.V3Session = func() (ch_wrapper.IChClient, error) {
		if !h.healthy && vrt.Bool("connect-refused") {
			return nil, errors.New("connection refused")
		}
		return &vbClient{h: h}, nil
	}
	h.svc.Init()
	h.inited = true
	return h
}

// VH_C01_batcher: any interleaving of push requests, timer/size/forced flushes and per-INSERT outcomes.
// A request is told success only if all its rows were part of one INSERT that succeeded; told the error if
// that INSERT failed; and every request gets exactly one answer once the database keeps answering.
func VH_C01_batcher() {
	vrt.Unwind(200)
	steps, maxReqs := 4, 2
	if vrt.Thorough() {
		steps, maxReqs = 6, 3
	}
	h := vbNew(maxReqs)
	for s := 0; s < steps; s++ {
		switch vrt.Choice("step", 3) {
		case 0:
			if h.issued < h.maxReqs {
				h.push()
			}
		case 1:
			h.svc.fetchLoopIteration() // what Run() does when the flush timer / size trigger fires
		default:
			h.svc.PlanFlush()
		}
	}
	// the database keeps answering: flushes run until nothing is pending
	h.healthy = true
	for k := 0; k < 3; k++ {
		h.svc.fetchLoopIteration()
	}
	for i, p := range h.promises {
		r := h.reqs[i]
		answered := false
		select {
		case <-vbLock(p):
			answered = true
		default:
		}
		vrt.Assert(answered, "every-request-is-answered-once-the-database-keeps-answering")
		_, err := p.Get()
		// find the inserts that carried rows of this request
		carried, okInsert, failedInsert := 0, 0, 0
		for _, ins := range h.inserts {
			n := 0
			for _, id := range ins.ids {
				if id == r.id {
					n++
				}
			}
			if n > 0 {
				carried++
				vrt.Assert(n == r.rows, "a-block-carries-all-rows-of-the-request-or-none")
				if ins.ok {
					okInsert++
				} else {
					failedInsert++
				}
			}
		}
		vrt.Assert(carried <= 1, "rows-of-a-request-are-sent-once")
		if r.rows == 0 {
			continue // nothing to store: an immediate empty acknowledgement is fine
		}
		if err == nil {
			vrt.Assert(okInsert == 1, "success-only-after-a-successful-insert-contained-the-rows")
		} else {
			vrt.Assert(okInsert == 0, "error-only-if-no-successful-insert-contained-the-rows")
		}
	}
	vrt.Reach("end")
}

func vbLock(p *promise.Promise[uint32]) chan any { return promise.VHLock(p) }
