//go:build verif

// verif:pkg writer/controller
package controllerv1

import (
	"context"
	"errors"
	"io"
	"net/http"
	"time"

	clconfig "github.com/metrico/cloki-config"
	clbase "github.com/metrico/cloki-config/config"
	"github.com/metrico/qryn/writer/config"
	"github.com/metrico/qryn/writer/model"
	"github.com/metrico/qryn/writer/service"
	"github.com/metrico/qryn/writer/utils/helpers"
	"github.com/metrico/qryn/writer/utils/numbercache"
	"github.com/metrico/qryn/writer/utils/promise"
	"github.com/metrico/qryn/zzverif/vrt"
)

// vhSvc is an insert service whose every Request is answered by a nondeterministic INSERT outcome.
type vhSvc struct {
	service.IInsertServiceV2
	name     string
	attempts int
	okAt     int    // attempt number that succeeded (0 = none yet)
	outcomes []bool // outcome of attempt k, drawn up front (the push goroutines run concurrently)
	failText string // text of the INSERT error
	// second chunk of the same request (bodies above ~1 MB are parsed into several chunks)
	attempts1, attempts2 int
	outcomes2            []bool
	ok2                  bool
}

// vhResp records what the handler writes to the client.
type vhResp struct {
	status int
	hdr    http.Header
}

func (w *vhResp) Header() http.Header {
	if w.hdr == nil {
		w.hdr = http.Header{}
	}
	return w.hdr
}
func (w *vhResp) Write(b []byte) (int, error) {
	if w.status == 0 {
		w.status = 200
	}
	return len(b), nil
}
func (w *vhResp) WriteHeader(code int) {
	if w.status == 0 {
		w.status = code
	}
}

func (s *vhSvc) Request(req helpers.SizeGetter, mode int) *promise.Promise[uint32] {
	s.attempts++
	if r, ok := req.(vhReq); ok && r.chunk == 1 {
		// the second parsed chunk of the request: its own outcome sequence
		s.attempts2++
		if s.outcomes2[s.attempts2-1] {
			s.ok2 = true
			return promise.Fulfilled[uint32](nil, 0)
		}
		return promise.Fulfilled[uint32](errors.New(s.failText), 0)
	}
	s.attempts1++
	if s.outcomes[s.attempts1-1] {
		if s.okAt == 0 {
			s.okAt = s.attempts1
		}
		return promise.Fulfilled[uint32](nil, 0)
	}
	return promise.Fulfilled[uint32](errors.New(s.failText), 0)
}
func (s *vhSvc) GetNodeName() string { return "n" }

type vhReq struct{ chunk int }

func (vhReq) GetSize() int64 { return 8 }

type vhCache struct{}

func (vhCache) CheckAndSet(uint64) bool                     { return false }
func (vhCache) DB(string) numbercache.ICache[uint64]        { return vhCache{} }

// VH_C01_handler: the HTTP-handler half of the acknowledgement rule: doParse/doPush with the real
// retry-go loop. A request (one parser response carrying a series part and a samples part) is answered
// nil only if for EACH part some attempt succeeded; if a part fails on all attempts the answer is an
// error; doParse returns exactly once and leaves no goroutine behind.
func VH_C01_handler() {
	vrt.CheckLeaks()
	vrt.Unwind(300)
	config.Cloki = &clconfig.ClokiConfig{Setting: &clbase.ClokiBaseSettingServer{}}
	attempts := vrt.Len("retry-attempts", 1, 3)
	config.Cloki.Setting.SYSTEM_SETTINGS.RetryAttempts = attempts
	config.Cloki.Setting.SYSTEM_SETTINGS.RetryTimeoutS = 0
	FPCache = vhCache{}
	// what the database says when an INSERT fails (the text decides nothing about the answer's class)
	failText := []string{"insert failed", "write tcp 10.0.0.1:1->10.0.0.2:9000: write: connection reset by peer",
		"connection reset by peer"}[vrt.Choice("insert-error-text", 3)]
	ts, spl := &vhSvc{name: "series", failText: failText}, &vhSvc{name: "samples", failText: failText}
	twoChunks := vrt.Bool("body-parsed-into-two-chunks")
	for k := 0; k < 3; k++ {
		ts.outcomes = append(ts.outcomes, vrt.Bool("series-insert-succeeds"))
		spl.outcomes = append(spl.outcomes, vrt.Bool("samples-insert-succeeds"))
		if twoChunks {
			spl.outcomes2 = append(spl.outcomes2, vrt.Bool("second-chunk-samples-insert-succeeds"))
		}
	}
	ctx := context.WithValue(context.Background(), "tsService", service.IInsertServiceV2(ts))
	ctx = context.WithValue(ctx, "splService", service.IInsertServiceV2(spl))
	ctx = context.WithValue(ctx, "node", "n")
	r := (&http.Request{}).WithContext(ctx)
	parserErr := vrt.Bool("parser-reports-error")
	parser := func(ctx context.Context, body io.Reader, c numbercache.ICache[uint64]) chan *model.ParserResponse {
		ch := make(chan *model.ParserResponse)
		go func() {
			defer close(ch)
			if parserErr {
				ch <- &model.ParserResponse{Error: errors.New("bad body")}
				ch <- &model.ParserResponse{TimeSeriesRequest: vhReq{}} // the parser may have more to say: must be drained
				return
			}
			ch <- &model.ParserResponse{TimeSeriesRequest: vhReq{}, SamplesRequest: vhReq{}}
			if twoChunks {
				ch <- &model.ParserResponse{SamplesRequest: vhReq{chunk: 1}}
			}
		}()
		return ch
	}
	err := doParse(r, parser)
	if parserErr {
		vrt.Assert(err != nil, "parser-error-is-reported")
		vrt.Assert(ts.attempts == 0 && spl.attempts == 0, "nothing-inserted-for-a-rejected-body")
		vrt.Reach("rejected")
		return
	}
	if err == nil {
		vrt.Assert(ts.okAt > 0, "success-only-if-the-series-part-was-inserted")
		vrt.Assert(spl.okAt > 0, "success-only-if-the-samples-part-was-inserted")
		vrt.Assert(!twoChunks || spl.ok2, "success-only-if-every-chunk-was-inserted")
	} else {
		vrt.Assert(ts.okAt == 0 || spl.okAt == 0 || (twoChunks && !spl.ok2), "error-only-if-some-part-was-never-inserted")
		// the status the client sees for that error (net/http answers 200 when the handler writes nothing)
		w := &vhResp{}
		ErrorHandler(w, r, err)
		vrt.Assert(w.status >= 400, "failed-inserts-are-answered-with-an-error-status")
	}
	vrt.Assert(ts.attempts1 <= attempts && spl.attempts1 <= attempts && spl.attempts2 <= attempts, "no-more-attempts-than-configured")
	_ = time.Second
	vrt.Reach("answered")
}
