//go:build verif

// verif:pkg writer/utils/unmarshal
package unmarshal

import (
	"github.com/metrico/qryn/zzverif/vrt"
	otlpCommon "go.opentelemetry.io/proto/otlp/common/v1"
	otlpLogs "go.opentelemetry.io/proto/otlp/logs/v1"
	otlpRes "go.opentelemetry.io/proto/otlp/resource/v1"
)

func voStr(s string) *otlpCommon.AnyValue {
	return &otlpCommon.AnyValue{Value: &otlpCommon.AnyValue_StringValue{StringValue: s}}
}

func voHas(labels [][]string, k, v string) bool {
	for _, l := range labels {
		if l[0] == k && l[1] == v {
			return true
		}
	}
	return false
}

// VH_C03_otlplogs: OTLP logs. Every log record becomes exactly one row with its own nanosecond timestamp,
// body text, type "log" and the label set resource ∪ scope ∪ record attributes (∪ level). The optional
// resource and scope messages may be absent (proto3: a well-formed body).
func VH_C03_otlplogs() {
	vrt.Unwind(300)
	n := vrt.Len("records", 1, 2)
	rl := &otlpLogs.ResourceLogs{}
	resVal := vrt.String("resource-attr", 1)
	hasRes := vrt.Bool("resource-present")
	if hasRes {
		rl.Resource = &otlpRes.Resource{Attributes: []*otlpCommon.KeyValue{{Key: "svc", Value: voStr(resVal)}}}
	}
	sl := &otlpLogs.ScopeLogs{}
	hasScope := vrt.Bool("scope-present")
	if hasScope {
		sl.Scope = &otlpCommon.InstrumentationScope{Attributes: []*otlpCommon.KeyValue{{Key: "lib", Value: voStr("l")}}}
	}
	type rec struct {
		ts   uint64
		body string
		attr string
		sev  string
	}
	var recs []rec
	for i := 0; i < n; i++ {
		r := rec{ts: vrt.Uint64("ts"), body: vrt.String("body", 1), attr: vrt.String("record-attr", 1), sev: vrt.String("severity", vrt.Len("severity-len", 0, 1))}
		recs = append(recs, r)
		sl.LogRecords = append(sl.LogRecords, &otlpLogs.LogRecord{
			TimeUnixNano: r.ts, Body: voStr(r.body), SeverityText: r.sev,
			Attributes: []*otlpCommon.KeyValue{{Key: "k" + string(rune('0'+i)), Value: voStr(r.attr)}},
		})
	}
	rl.ScopeLogs = []*otlpLogs.ScopeLogs{sl}
	body := &otlpLogs.LogsData{ResourceLogs: []*otlpLogs.ResourceLogs{rl}}
	if vrt.KnownFinding("C03-otlp-logs-absent-resource-or-scope", !hasRes || !hasScope) {
		return
	}
	dec := &otlpLogDec{ctx: &ParserCtx{bodyObject: body}}
	var got []vhEntry
	dec.SetOnEntries(vhCollect(&got))
	panicked := false
	var err error
	func() {
		defer func() {
			if recover() != nil {
				panicked = true
			}
		}()
		err = dec.Decode()
	}()
	vrt.Assert(!panicked, "well-formed-body-does-not-panic-the-decoder")
	vrt.Assert(err == nil, "well-formed-body-accepted")
	vrt.Assert(len(got) == n, "one-row-per-log-record")
	for i, r := range recs {
		vrt.Assert(got[i].ts == int64(r.ts), "row-timestamp")
		vrt.Assert(got[i].msg == r.body, "row-line")
		vrt.Assert(got[i].tp == 1, "row-type-log")
		want := 1
		vrt.Assert(voHas(got[i].labels, "k"+string(rune('0'+i)), r.attr), "row-has-its-own-record-attribute")
		if hasRes {
			want++
			vrt.Assert(voHas(got[i].labels, "svc", resVal), "row-has-the-resource-attribute")
		}
		if hasScope {
			want++
			vrt.Assert(voHas(got[i].labels, "lib", "l"), "row-has-the-scope-attribute")
		}
		if r.sev != "" {
			want++
			vrt.Assert(voHas(got[i].labels, "level", r.sev), "row-has-the-level-label")
		}
		vrt.Assert(len(got[i].labels) == want, "row-has-no-foreign-label")
	}
	vrt.Reach("end")
}
