//go:build verif

// verif:pkg writer/utils/unmarshal
package unmarshal

import (
	"bytes"
	"context"
	"io"
	"time"

	"github.com/metrico/qryn/zzverif/vrt"
)

func vjPrintable(label string) string {
	b := vrt.Byte(label)
	vrt.Assume(b >= 0x20)
	vrt.Assume(b < 0x7f)
	vrt.Assume(b != '"')
	vrt.Assume(b != '\\')
	return string([]byte{b})
}

func vjDigit(label string) string {
	b := vrt.Byte(label)
	vrt.Assume(b >= '1')
	vrt.Assume(b <= '9')
	return string([]byte{b})
}

// VH_C03_lokijson: Loki JSON push, "streams/stream/values" layout, decoded by the real decoder (go-faster/jx
// executed from SSA): 1-2 streams x 0-2 entries, any key order inside the stream object, optional numeric
// third element. One row per entry with its own nanosecond timestamp, line, type (log / metric / both) and
// its own stream's labels.
func VH_C03_lokijson() {
	vrt.Unwind(3000)
	vrt.ConcreteUnwind(400000)
	ns := vrt.Len("streams", 1, 2)
	var want []vhEntry
	body := `{"streams":[`
	for s := 0; s < ns; s++ {
		lv := vjPrintable("label-value")
		name := "app" + string(rune('0'+s))
		labels := `"stream":{"` + name + `":"` + lv + `"}`
		values := `"values":[`
		ne := vrt.Len("entries", 0, 2)
		for e := 0; e < ne; e++ {
			d := vjDigit("ts-digit")
			line := vjPrintable("line")
			ts := int64(1700000000000000000) + int64(d[0]-'0')
			item := `["170000000000000000` + d + `","` + line + `"`
			tp := uint8(1)
			val := float64(0)
			if vrt.Bool("numeric-third-element") {
				item += `,2.5`
				tp = 0 // both
				val = 2.5
			}
			item += `]`
			if e > 0 {
				values += ","
			}
			values += item
			want = append(want, vhEntry{labels: [][]string{{name, lv}}, ts: ts, msg: line, val: val, tp: tp})
		}
		values += `]`
		if s > 0 {
			body += ","
		}
		if vrt.Bool("values-before-stream") {
			body += "{" + values + "," + labels + "}"
		} else {
			body += "{" + labels + "," + values + "}"
		}
	}
	body += `]}`
	dec := &pushRequestDec{ctx: &ParserCtx{bodyReader: bytes.NewReader([]byte(body))}}
	var got []vhEntry
	dec.SetOnEntries(vhCollect(&got))
	err := dec.Decode()
	vrt.Assert(err == nil, "well-formed-body-accepted")
	vrt.Assert(len(got) == len(want), "one-row-per-entry")
	for i := range want {
		vrt.Assert(got[i].ts == want[i].ts, "row-timestamp")
		vrt.Assert(got[i].msg == want[i].msg, "row-line")
		vrt.Assert(got[i].tp == want[i].tp, "row-type")
		vrt.Assert(got[i].val == want[i].val, "row-value")
		vrt.Assert(vhSameLabels(got[i].labels, want[i].labels), "row-own-stream-labels")
	}
	vrt.Reach("end")
}

// VH_C03_datadog_logs: Datadog logs intake: a JSON array of 1-2 entries whose optional fields are present
// or absent independently. Every entry becomes one row with its own message, timestamp and exactly the labels
// made from ITS OWN fields (nothing inherited from the previous entry).
func VH_C03_datadog_logs() {
	vrt.Unwind(3000)
	vrt.ConcreteUnwind(400000)
	n := vrt.Len("entries", 1, 2)
	type ent struct {
		msg, svc, st string
		hasSvc, hasSt bool
		ts           int64
	}
	var ents []ent
	body := "["
	for i := 0; i < n; i++ {
		e := ent{msg: vjPrintable("message"), svc: "s" + string(rune('a'+i)), st: "t" + string(rune('a'+i))}
		e.hasSvc, e.hasSt = vrt.Bool("service-present"), vrt.Bool("source-type-present")
		d := vjDigit("ts-digit")
		e.ts = (1700000000000 + int64(d[0]-'0')) * 1000000
		item := `{"message":"` + e.msg + `","timestamp":170000000000` + d
		if e.hasSvc {
			item += `,"service":"` + e.svc + `"`
		}
		if e.hasSt {
			item += `,"source_type":"` + e.st + `"`
		}
		item += "}"
		if i > 0 {
			body += ","
		}
		body += item
		ents = append(ents, e)
	}
	body += "]"
	dec := &datadogRequestDec{ctx: &ParserCtx{bodyReader: bytes.NewReader([]byte(body))}}
	var got []vhEntry
	dec.SetOnEntries(vhCollect(&got))
	err := dec.Decode()
	vrt.Assert(err == nil, "well-formed-body-accepted")
	vrt.Assert(len(got) == n, "one-row-per-entry")
	for i, e := range ents {
		vrt.Assert(got[i].msg == e.msg, "row-line")
		vrt.Assert(got[i].ts == e.ts, "row-timestamp")
		vrt.Assert(got[i].tp == 1, "row-type-log")
		want := 1 // type=datadog
		if e.hasSvc {
			want++
			vrt.Assert(voHas(got[i].labels, "service", e.svc), "row-has-its-own-service-label")
		}
		if e.hasSt {
			want++
			vrt.Assert(voHas(got[i].labels, "source_type", e.st), "row-has-its-own-source-type-label")
		}
		if vrt.KnownFinding("C03-datadog-source-type-leaks", i > 0 && !e.hasSt && ents[i-1].hasSt) {
			return
		}
		vrt.Assert(len(got[i].labels) == want, "row-has-no-label-from-another-entry")
	}
	vrt.Reach("end")
}

// vjSplitReader delivers data in two Read calls: [0,cut) then the rest.
type vjSplitReader struct {
	data []byte
	cut  int
	pos  int
}

func (r *vjSplitReader) Read(p []byte) (int, error) {
	if r.pos >= len(r.data) {
		return 0, io.EOF
	}
	end := len(r.data)
	if r.pos < r.cut {
		end = r.cut
	}
	n := copy(p, r.data[r.pos:end])
	r.pos += n
	return n, nil
}

// VH_C03_lokijson_split: "however the body is split": one stream with two entries whose line bytes are
// symbolic reaches the decoder in two reads cut at EVERY offset of the body (the decoder refills its buffer
// in between): every row still carries its own line and timestamp.
func VH_C03_lokijson_split() {
	vrt.Unwind(3000)
	vrt.ConcreteUnwind(400000)
	l1, l2 := vjPrintable("line"), vjPrintable("line")
	body := `{"streams":[{"stream":{"app":"x"},"values":[["1700000000000000001","` + l1 + `aaaa"],["1700000000000000002","` + l2 + `bbbb"]]}]}`
	cut := vrt.Len("body-split-offset", 1, len(body)-1)
	dec := &pushRequestDec{ctx: &ParserCtx{bodyReader: &vjSplitReader{data: []byte(body), cut: cut}}}
	var got []vhEntry
	dec.SetOnEntries(vhCollect(&got))
	err := dec.Decode()
	vrt.Assert(err == nil, "well-formed-body-accepted")
	vrt.Assert(len(got) == 2, "one-row-per-entry")
	vrt.Assert(got[0].msg == l1+"aaaa", "first-row-keeps-its-own-line")
	vrt.Assert(got[1].msg == l2+"bbbb", "second-row-keeps-its-own-line")
	vrt.Assert(got[0].ts == 1700000000000000001 && got[1].ts == 1700000000000000002, "row-timestamps")
	vrt.Reach("end")
}

// VH_C03_lokijson_large: a body larger than the decoder's 64 KiB read buffer (one entry carries a 66 000
// byte line): the rows decoded before the buffer is refilled keep their own line text.
func VH_C03_lokijson_large() {
	vrt.Unwind(3000)
	vrt.ConcreteUnwind(4000000)
	vrt.Steps(400000000)
	l1 := vjPrintable("line")
	filler := make([]byte, 66000)
	for i := range filler {
		filler[i] = 'f'
	}
	body := `{"streams":[{"stream":{"app":"x"},"values":[["1700000000000000001","` + l1 + `aaaa"],["1700000000000000002","` + string(filler) + `"],["1700000000000000003","zzzz"]]}]}`
	dec := &pushRequestDec{ctx: &ParserCtx{bodyReader: bytes.NewReader([]byte(body))}}
	var got []vhEntry
	dec.SetOnEntries(vhCollect(&got))
	err := dec.Decode()
	vrt.Assert(err == nil, "well-formed-body-accepted")
	vrt.Assert(len(got) == 3, "one-row-per-entry")
	vrt.Assert(got[0].msg == l1+"aaaa", "first-row-keeps-its-own-line-after-the-buffer-refill")
	vrt.Assert(len(got[1].msg) == 66000, "large-line-kept")
	vrt.Assert(got[2].msg == "zzzz", "last-row-line")
	vrt.Reach("end")
}

// VH_C03_datadog_metrics: Datadog series intake: 1-2 series with 1-2 points each, optional resources, any of
// two key orders. Every point becomes one metric row with its own timestamp (seconds -> ns) and value under
// the labels of ITS OWN series (metric name, resources) - nothing from the previous series.
func VH_C03_datadog_metrics() {
	vrt.Unwind(3000)
	vrt.ConcreteUnwind(400000)
	ns := vrt.Len("series", 1, 2)
	type pt struct {
		ts  int64
		val float64
	}
	type ser struct {
		name   string
		hasRes bool
		pts    []pt
	}
	var sers []ser
	body := `{"series":[`
	vals := []string{"1.5", "2.25", "3", "4.75"}
	fvals := []float64{1.5, 2.25, 3, 4.75}
	k := 0
	for s := 0; s < ns; s++ {
		se := ser{name: "m" + string(rune('a'+s)), hasRes: vrt.Bool("resources-present")}
		points := `"points":[`
		np := vrt.Len("points", 1, 2)
		for p := 0; p < np; p++ {
			d := vjDigit("ts-digit")
			ts := int64(1700000000+int64(d[0]-'0')) * 1000000000
			if p > 0 {
				points += ","
			}
			if vrt.Bool("value-before-timestamp") {
				points += `{"value":` + vals[k] + `,"timestamp":170000000` + d + `}`
			} else {
				points += `{"timestamp":170000000` + d + `,"value":` + vals[k] + `}`
			}
			se.pts = append(se.pts, pt{ts, fvals[k]})
			k++
		}
		points += `]`
		item := `"metric":"` + se.name + `"`
		if se.hasRes {
			res := `"resources":[{"name":"h` + string(rune('a'+s)) + `","type":"host"}]`
			if vrt.Bool("resources-before-metric") {
				item = res + "," + item
			} else {
				item += "," + res
			}
		}
		if vrt.Bool("points-first") {
			item = points + "," + item
		} else {
			item = item + "," + points
		}
		if s > 0 {
			body += ","
		}
		body += "{" + item + "}"
		sers = append(sers, se)
	}
	body += `]}`
	dec := &datadogMetricsRequestDec{ctx: &ParserCtx{bodyReader: bytes.NewReader([]byte(body))}}
	var got []vhEntry
	dec.SetOnEntries(vhCollect(&got))
	err := dec.Decode()
	vrt.Assert(err == nil, "well-formed-body-accepted")
	i := 0
	for s, se := range sers {
		for _, p := range se.pts {
			vrt.Assert(i < len(got), "one-row-per-point")
			vrt.Assert(got[i].ts == p.ts, "row-timestamp")
			vrt.Assert(got[i].val == p.val, "row-value")
			vrt.Assert(got[i].tp == 2, "row-type-metric")
			vrt.Assert(voHas(got[i].labels, "__name__", se.name), "row-under-its-own-metric-name")
			want := 1
			if se.hasRes {
				want += 2
				vrt.Assert(voHas(got[i].labels, "resource1_name", "h"+string(rune('a'+s))), "row-has-its-own-resource")
			}
			vrt.Assert(len(got[i].labels) == want, "row-has-no-label-from-another-series")
			i++
		}
	}
	vrt.Assert(i == len(got), "no-extra-row")
	vrt.Reach("end")
}

// VH_C03_influx: Influx line protocol through the real telegraf stream parser (executed from SSA): 1-2
// lines, each a metric line (1-2 numeric fields) or a log line (message field), with a symbolic tag value
// byte, field digit and timestamp digit. Every numeric field of a metric line becomes one metric row named
// after the field, every log line one log row; each row carries its own line's timestamp, tags and
// measurement.
func VH_C03_influx() {
	vrt.Unwind(6000)
	vrt.ConcreteUnwind(2000000)
	vrt.Steps(60000000)
	n := vrt.Len("lines", 1, 2)
	type row struct {
		ts     int64
		msg    string
		val    float64
		tp     uint8
		name   string
		host   string
		measur string
	}
	var want []row
	body := ""
	for i := 0; i < n; i++ {
		hb := vrt.Byte("tag-value")
		vrt.Assume(hb >= 'a' && hb <= 'z')
		host := "h" + string([]byte{hb})
		td := vjDigit("ts-digit")
		ts := int64(1700000000000000000) + int64(td[0]-'0')
		me := "cpu" + string(rune('a'+i))
		if vrt.Bool("log-line") {
			body += me + ",host=" + host + ` message="hello ` + string(rune('a'+i)) + `" 170000000000000000` + td + "\n"
			want = append(want, row{ts: ts, msg: "hello " + string(rune('a'+i)), tp: 1, host: host, measur: me})
			continue
		}
		fd := vjDigit("field-digit")
		line := me + ",host=" + host + " usage=" + fd + "i"
		want = append(want, row{ts: ts, val: float64(fd[0] - '0'), tp: 2, name: "usage", host: host, measur: me})
		if vrt.Bool("second-numeric-field") {
			line += ",idle=2.5"
			want = append(want, row{ts: ts, val: 2.5, tp: 2, name: "idle", host: host, measur: me})
		}
		body += line + " 170000000000000000" + td + "\n"
	}
	ctx := context.WithValue(context.Background(), "precision", time.Nanosecond)
	dec := &influxDec{ctx: &ParserCtx{bodyReader: bytes.NewReader([]byte(body)), ctx: ctx}}
	var got []vhEntry
	dec.SetOnEntries(vhCollect(&got))
	err := dec.Decode()
	vrt.Assert(err == nil, "well-formed-body-accepted")
	vrt.Assert(len(got) == len(want), "one-row-per-field-or-log-line")
	// the fields of one line come out in map iteration order: rows are matched as a multiset
	used := make([]bool, len(got))
	for _, w := range want {
		found := false
		for i := range got {
			if used[i] || got[i].ts != w.ts || got[i].tp != w.tp || got[i].msg != w.msg || got[i].val != w.val {
				continue
			}
			if !voHas(got[i].labels, "measurement", w.measur) || !voHas(got[i].labels, "host", w.host) {
				continue
			}
			wantLabels := 2
			if w.tp == 2 {
				if !voHas(got[i].labels, "__name__", w.name) {
					continue
				}
				wantLabels = 3
			}
			if len(got[i].labels) != wantLabels {
				continue
			}
			used[i], found = true, true
			break
		}
		vrt.Assert(found, "every-field-or-log-line-has-its-row-with-exactly-its-own-labels")
	}
	vrt.Reach("end")
}

// VH_C03_lokijson_legacy: Loki JSON push, legacy "labels"/"entries" layout: the label set is a LogQL-style
// text ({app="x"}), timestamps are RFC 3339 text (table of three instants incl. a zone offset and
// nanoseconds) or integer nanoseconds (symbolic digit), entries carry a line, a value, or both.
func VH_C03_lokijson_legacy() {
	vrt.Unwind(4000)
	vrt.ConcreteUnwind(600000)
	ns := vrt.Len("streams", 1, 2)
	var want []vhEntry
	body := `{"streams":[`
	stamps := []string{"2021-12-26T16:00:06.944Z", "2021-12-26T18:00:06.000000001+02:00", "1970-01-01T00:00:01Z"}
	stampNs := []int64{1640534406944000000, 1640534406000000001, 1000000000}
	for s := 0; s < ns; s++ {
		lv := vjPrintable("label-value")
		name := "app" + string(rune('0'+s))
		labels := `"labels":"{` + name + `=\"` + lv + `\"}"`
		entries := `"entries":[`
		ne := vrt.Len("entries", 0, 2-s) // the second stream has at most one entry (bounds the path count)
		for e := 0; e < ne; e++ {
			var tsText string
			var ts int64
			k := 3
			if e == 0 {
				k = vrt.Choice("timestamp-form", 4) // the first entry of a stream varies the timestamp form
			}
			if k < 3 {
				tsText, ts = stamps[k], stampNs[k]
			} else {
				d := vjDigit("ts-digit")
				tsText, ts = "170000000000000000"+d, int64(1700000000000000000)+int64(d[0]-'0')
			}
			line := vjPrintable("line")
			item := `{"ts":"` + tsText + `"`
			tp := uint8(0)
			msg := ""
			val := float64(0)
			switch vrt.Choice("entry-kind", 3) {
			case 0:
				item += `,"line":"` + line + `"`
				tp, msg = 1, line
			case 1:
				item += `,"value":2.5`
				tp, val = 2, 2.5
			default:
				item += `,"line":"` + line + `","value":2.5`
				tp, msg, val = 0, line, 2.5
			}
			item += `}`
			if e > 0 {
				entries += ","
			}
			entries += item
			want = append(want, vhEntry{labels: [][]string{{name, lv}}, ts: ts, msg: msg, val: val, tp: tp})
		}
		entries += `]`
		if s > 0 {
			body += ","
		}
		if vrt.Bool("entries-before-labels") {
			body += "{" + entries + "," + labels + "}"
		} else {
			body += "{" + labels + "," + entries + "}"
		}
	}
	body += `]}`
	dec := &pushRequestDec{ctx: &ParserCtx{bodyReader: bytes.NewReader([]byte(body))}}
	var got []vhEntry
	dec.SetOnEntries(vhCollect(&got))
	err := dec.Decode()
	vrt.Assert(err == nil, "well-formed-body-accepted")
	vrt.Assert(len(got) == len(want), "one-row-per-entry")
	for i := range want {
		vrt.Assert(got[i].ts == want[i].ts, "row-timestamp")
		vrt.Assert(got[i].msg == want[i].msg, "row-line")
		vrt.Assert(got[i].val == want[i].val, "row-value")
		vrt.Assert(got[i].tp == want[i].tp, "row-type")
		vrt.Assert(vhSameLabels(got[i].labels, want[i].labels), "row-own-stream-labels")
	}
	vrt.Reach("end")
}
