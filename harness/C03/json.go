//go:build verif

// verif:pkg writer/utils/unmarshal
package unmarshal

import (
	"bytes"

	"github.com/metrico/qryn/zzverif/vrt"
)

func vjPrintable(label string) string {
	b := vrt.Byte(label)
	vrt.Assume(b >= 0x20)
	vrt.Assume(b < 0x7f)
	vrt.Assume(b != '"')
	vrt.Assume(b != '\\')
	return string([]byte{b})
}

func vjDigit(label string) string {
	b := vrt.Byte(label)
	vrt.Assume(b >= '1')
	vrt.Assume(b <= '9')
	return string([]byte{b})
}

// VH_C03_lokijson: Loki JSON push, "streams/stream/values" layout, decoded by the real decoder (go-faster/jx
// executed from SSA): 1-2 streams x 0-2 entries, any key order inside the stream object, optional numeric
// third element. One row per entry with its own nanosecond timestamp, line, type (log / metric / both) and
// its own stream's labels.
func VH_C03_lokijson() {
	vrt.Unwind(3000)
	vrt.ConcreteUnwind(400000)
	ns := vrt.Len("streams", 1, 2)
	var want []vhEntry
	body := `{"streams":[`
	for s := 0; s < ns; s++ {
		lv := vjPrintable("label-value")
		name := "app" + string(rune('0'+s))
		labels := `"stream":{"` + name + `":"` + lv + `"}`
		values := `"values":[`
		ne := vrt.Len("entries", 0, 2)
		for e := 0; e < ne; e++ {
			d := vjDigit("ts-digit")
			line := vjPrintable("line")
			ts := int64(1700000000000000000) + int64(d[0]-'0')
			item := `["170000000000000000` + d + `","` + line + `"`
			tp := uint8(1)
			val := float64(0)
			if vrt.Bool("numeric-third-element") {
				item += `,2.5`
				tp = 0 // both
				val = 2.5
			}
			item += `]`
			if e > 0 {
				values += ","
			}
			values += item
			want = append(want, vhEntry{labels: [][]string{{name, lv}}, ts: ts, msg: line, val: val, tp: tp})
		}
		values += `]`
		if s > 0 {
			body += ","
		}
		if vrt.Bool("values-before-stream") {
			body += "{" + values + "," + labels + "}"
		} else {
			body += "{" + labels + "," + values + "}"
		}
	}
	body += `]}`
	dec := &pushRequestDec{ctx: &ParserCtx{bodyReader: bytes.NewReader([]byte(body))}}
	var got []vhEntry
	dec.SetOnEntries(vhCollect(&got))
	err := dec.Decode()
	vrt.Assert(err == nil, "well-formed-body-accepted")
	vrt.Assert(len(got) == len(want), "one-row-per-entry")
	for i := range want {
		vrt.Assert(got[i].ts == want[i].ts, "row-timestamp")
		vrt.Assert(got[i].msg == want[i].msg, "row-line")
		vrt.Assert(got[i].tp == want[i].tp, "row-type")
		vrt.Assert(got[i].val == want[i].val, "row-value")
		vrt.Assert(vhSameLabels(got[i].labels, want[i].labels), "row-own-stream-labels")
	}
	vrt.Reach("end")
}

// VH_C03_datadog_logs: Datadog logs intake: a JSON array of 1-2 entries whose optional fields are present
// or absent independently. Every entry becomes one row with its own message, timestamp and exactly the labels
// made from ITS OWN fields (nothing inherited from the previous entry).
func VH_C03_datadog_logs() {
	vrt.Unwind(3000)
	vrt.ConcreteUnwind(400000)
	n := vrt.Len("entries", 1, 2)
	type ent struct {
		msg, svc, st string
		hasSvc, hasSt bool
		ts           int64
	}
	var ents []ent
	body := "["
	for i := 0; i < n; i++ {
		e := ent{msg: vjPrintable("message"), svc: "s" + string(rune('a'+i)), st: "t" + string(rune('a'+i))}
		e.hasSvc, e.hasSt = vrt.Bool("service-present"), vrt.Bool("source-type-present")
		d := vjDigit("ts-digit")
		e.ts = (1700000000000 + int64(d[0]-'0')) * 1000000
		item := `{"message":"` + e.msg + `","timestamp":170000000000` + d
		if e.hasSvc {
			item += `,"service":"` + e.svc + `"`
		}
		if e.hasSt {
			item += `,"source_type":"` + e.st + `"`
		}
		item += "}"
		if i > 0 {
			body += ","
		}
		body += item
		ents = append(ents, e)
	}
	body += "]"
	dec := &datadogRequestDec{ctx: &ParserCtx{bodyReader: bytes.NewReader([]byte(body))}}
	var got []vhEntry
	dec.SetOnEntries(vhCollect(&got))
	err := dec.Decode()
	vrt.Assert(err == nil, "well-formed-body-accepted")
	vrt.Assert(len(got) == n, "one-row-per-entry")
	for i, e := range ents {
		vrt.Assert(got[i].msg == e.msg, "row-line")
		vrt.Assert(got[i].ts == e.ts, "row-timestamp")
		vrt.Assert(got[i].tp == 1, "row-type-log")
		want := 1 // type=datadog
		if e.hasSvc {
			want++
			vrt.Assert(voHas(got[i].labels, "service", e.svc), "row-has-its-own-service-label")
		}
		if e.hasSt {
			want++
			vrt.Assert(voHas(got[i].labels, "source_type", e.st), "row-has-its-own-source-type-label")
		}
		if vrt.KnownFinding("C03-datadog-source-type-leaks", i > 0 && !e.hasSt && ents[i-1].hasSt) {
			return
		}
		vrt.Assert(len(got[i].labels) == want, "row-has-no-label-from-another-entry")
	}
	vrt.Reach("end")
}
