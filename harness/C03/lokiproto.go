//go:build verif

// verif:pkg writer/utils/unmarshal
package unmarshal

import (
	"github.com/metrico/qryn/writer/utils/proto/logproto"
	"github.com/metrico/qryn/zzverif/vrt"
)

// VH_C03_lokiproto: Loki protobuf push. Every entry of every stream becomes one row with
// seconds*1e9+nanos as timestamp, its line, type "log" and its own stream's labels; streams with zero
// entries are fine; the label text is parsed by the real parseLabelsLokiFormat (text/scanner from SSA).
func VH_C03_lokiproto() {
	vrt.Unwind(400)
	ns := vrt.Len("streams", 1, 2)
	req := &logproto.PushRequest{}
	var want []vhEntry
	for s := 0; s < ns; s++ {
		lv := vrt.String("label-value", 1)
		vrt.Assume(lv[0] >= 0x20)
		vrt.Assume(lv[0] < 0x7f)
		vrt.Assume(lv[0] != '"')
		vrt.Assume(lv[0] != '\\')
		name := "app" + string(rune('0'+s))
		st := &logproto.StreamAdapter{Labels: "{" + name + "=\"" + lv + "\"}"}
		ne := vrt.Len("entries", 0, 2)
		for e := 0; e < ne; e++ {
			sec, nano := vrt.Int64("seconds"), vrt.Int32("nanos")
			vrt.Assume(sec >= 0)
			vrt.Assume(sec < 9000000000)
			vrt.Assume(nano >= 0)
			vrt.Assume(nano < 1000000000)
			line := vrt.String("line", 1)
			st.Entries = append(st.Entries, &logproto.EntryAdapter{Timestamp: &logproto.Timestamp{Seconds: sec, Nanos: nano}, Line: line})
			want = append(want, vhEntry{labels: [][]string{{name, lv}}, ts: sec*1000000000 + int64(nano), msg: line, tp: 1})
		}
		req.Streams = append(req.Streams, st)
	}
	dec := &logsProtoDec{ctx: &ParserCtx{bodyObject: req}}
	var got []vhEntry
	dec.SetOnEntries(vhCollect(&got))
	err := dec.Decode()
	vrt.Assert(err == nil, "well-formed-body-accepted")
	vrt.Assert(len(got) == len(want), "one-row-per-entry")
	for i := range want {
		vrt.Assert(got[i].ts == want[i].ts, "row-timestamp")
		vrt.Assert(got[i].msg == want[i].msg, "row-line")
		vrt.Assert(got[i].tp == 1, "row-type-log")
		vrt.Assert(vhSameLabels(got[i].labels, want[i].labels), "row-own-stream-labels")
	}
	vrt.Reach("end")
}
