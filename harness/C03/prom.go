//go:build verif

// verif:pkg writer/utils/unmarshal
package unmarshal

import (
	"github.com/metrico/qryn/writer/utils/proto/prompb"
	"github.com/metrico/qryn/zzverif/vrt"
)

type vhEntry struct {
	labels [][]string
	ts     int64
	msg    string
	val    float64
	tp     uint8
}

// vhCollect returns an onEntries handler that checks the per-call array lengths (every row needs all
// of its fields) and records one vhEntry per row.
func vhCollect(out *[]vhEntry) onEntriesHandler {
	return func(labels [][]string, tsns []int64, msg []string, value []float64, types []uint8) error {
		vrt.Assert(len(msg) == len(tsns), "callback-message-count-equals-timestamp-count")
		vrt.Assert(len(value) == len(tsns), "callback-value-count-equals-timestamp-count")
		vrt.Assert(len(types) == len(tsns), "callback-type-count-equals-timestamp-count")
		lb := make([][]string, len(labels))
		for i, l := range labels {
			lb[i] = []string{l[0], l[1]}
		}
		for i := range tsns {
			*out = append(*out, vhEntry{labels: lb, ts: tsns[i], msg: msg[i], val: value[i], tp: types[i]})
		}
		return nil
	}
}

func vhSameLabels(a, b [][]string) bool {
	if len(a) != len(b) {
		return false
	}
	for i := range a {
		if a[i][0] != b[i][0] || a[i][1] != b[i][1] {
			return false
		}
	}
	return true
}

// VH_C03_prom: Prometheus remote-write. Every sample of every series becomes exactly one row with
// timestamp ms*1e6, its value, type metric, and the labels of its own series, in order.
func VH_C03_prom() {
	maxSeries, maxSamples := 2, 2
	if vrt.Thorough() {
		maxSeries, maxSamples = 3, 3
	}
	nSeries := vrt.Len("series", 1, maxSeries)
	req := &prompb.WriteRequest{}
	var want []vhEntry
	for s := 0; s < nSeries; s++ {
		ts := &prompb.TimeSeries{}
		nl := vrt.Len("labels", 1, 2)
		var lb [][]string
		for i := 0; i < nl; i++ {
			name := "l" + string(rune('a'+i)) + "_" + string(rune('0'+s))
			val := vrt.String("labelvalue", 2)
			ts.Labels = append(ts.Labels, &prompb.Label{Name: name, Value: val})
			lb = append(lb, []string{name, val})
		}
		ns := vrt.Len("samples", 0, maxSamples)
		for i := 0; i < ns; i++ {
			t := vrt.Int64("ts")
			vrt.Assume(t > -9000000000000 && t < 9000000000000) // |ms| < 9e12 (year 2255): ts*1e6 does not overflow
			v := vrt.Float64("value")
			ts.Samples = append(ts.Samples, &prompb.Sample{Timestamp: t, Value: v})
			want = append(want, vhEntry{labels: lb, ts: t * 1000000, val: v, tp: 2})
		}
		req.Timeseries = append(req.Timeseries, ts)
	}
	dec := &promMetricsProtoDec{ctx: &ParserCtx{bodyObject: req}}
	var got []vhEntry
	dec.SetOnEntries(vhCollect(&got))
	err := dec.Decode()
	vrt.Assert(err == nil, "well-formed-body-accepted")
	vrt.Assert(len(got) == len(want), "one-row-per-sample")
	for i := range want {
		vrt.Assert(got[i].ts == want[i].ts, "row-timestamp")
		vrt.Assert(got[i].val == want[i].val || (got[i].val != got[i].val && want[i].val != want[i].val), "row-value")
		vrt.Assert(got[i].tp == 2, "row-type-metric")
		vrt.Assert(got[i].msg == "", "row-empty-message")
		vrt.Assert(vhSameLabels(got[i].labels, want[i].labels), "row-own-series-labels")
	}
	vrt.Reach("end")
}

// VH_C03_prom_flush: one series whose sample count crosses the decoder's 1000-point flush threshold.
func VH_C03_prom_flush() {
	vrt.ConcreteUnwind(5000)
	n := 1000 + vrt.Len("extra", 0, 2)
	ts := &prompb.TimeSeries{Labels: []*prompb.Label{{Name: "a", Value: "b"}}}
	t0 := vrt.Int64("t0")
	vrt.Assume(t0 > 0 && t0 < 9000000000000)
	for i := 0; i < n; i++ {
		ts.Samples = append(ts.Samples, &prompb.Sample{Timestamp: t0 + int64(i), Value: float64(i)})
	}
	req := &prompb.WriteRequest{Timeseries: []*prompb.TimeSeries{ts}}
	dec := &promMetricsProtoDec{ctx: &ParserCtx{bodyObject: req}}
	var got []vhEntry
	dec.SetOnEntries(vhCollect(&got))
	err := dec.Decode()
	vrt.Assert(err == nil, "well-formed-body-accepted")
	vrt.Assert(len(got) == n, "one-row-per-sample")
	for i := 0; i < n; i += 499 {
		vrt.Assert(got[i].ts == (t0+int64(i))*1000000, "row-timestamp")
	}
	vrt.Reach("end")
}
