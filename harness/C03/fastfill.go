//go:build verif

// verif:pkg writer/utils/unmarshal
package unmarshal

import "github.com/metrico/qryn/zzverif/vrt"

// VH_C03_fastfill: fastFillArray(n, v) must return n copies of v for every n >= 0
// (n = number of entries of a stream; a stream with zero entries is well-formed).
func VH_C03_fastfill() {
	maxN := 9
	if vrt.Thorough() {
		maxN = 40
	}
	n := vrt.Len("n", 0, maxN)
	v := vrt.Byte("v")
	if vrt.KnownFinding("C03-fastfill-zero", n == 0) {
		return
	}
	res := fastFillArray[uint8](n, v)
	vrt.Assert(len(res) == n, "fastfill-length")
	for i := range res {
		vrt.Assert(res[i] == v, "fastfill-value")
	}
	vrt.Reach("end")
}
