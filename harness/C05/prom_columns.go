//go:build verif

// verif:pkg writer/utils/unmarshal
package unmarshal

import (
	"github.com/metrico/qryn/writer/utils/proto/prompb"
	"github.com/metrico/qryn/zzverif/vrt"
)

// VH_C05_prom_flush_columns: a remote-write body whose sample count crosses the decoder's 1000-point flush
// threshold, in one series or split over two: every portion handed to the insert path has columns of equal
// length (the insert service appends them unchecked into the batch shared with other clients' rows), and
// nothing is lost. The split point and the number of samples beyond the threshold are symbolic.
func VH_C05_prom_flush_columns() {
	vrt.ConcreteUnwind(5000)
	total := 1000 + vrt.Len("samples-beyond-threshold", 0, 2)
	first := total
	if vrt.Bool("two-series") {
		first = []int{1, 600, 999, 1000}[vrt.Choice("first-series-samples", 4)]
	}
	t0 := vrt.Int64("t0")
	vrt.Assume(t0 > 0 && t0 < 9000000000000)
	mk := func(name string, from, n int) *prompb.TimeSeries {
		ts := &prompb.TimeSeries{Labels: []*prompb.Label{{Name: "__name__", Value: name}}}
		for i := 0; i < n; i++ {
			ts.Samples = append(ts.Samples, &prompb.Sample{Timestamp: t0 + int64(from+i), Value: float64(from + i)})
		}
		return ts
	}
	req := &prompb.WriteRequest{Timeseries: []*prompb.TimeSeries{mk("m1", 0, first)}}
	if first < total {
		req.Timeseries = append(req.Timeseries, mk("m2", first, total-first))
	}
	dec := &promMetricsProtoDec{ctx: &ParserCtx{bodyObject: req}}
	rows := 0
	dec.SetOnEntries(func(labels [][]string, tsns []int64, msg []string, value []float64, types []uint8) error {
		vrt.Assert(len(msg) == len(tsns), "portion-message-column-as-long-as-timestamps")
		vrt.Assert(len(value) == len(tsns), "portion-value-column-as-long-as-timestamps")
		vrt.Assert(len(types) == len(tsns), "portion-type-column-as-long-as-timestamps")
		for i := range tsns {
			vrt.Assert(tsns[i] == (t0+int64(rows+i))*1000000, "portion-rows-in-order-with-their-own-timestamps")
		}
		rows += len(tsns)
		return nil
	})
	err := dec.Decode()
	vrt.Assert(err == nil, "well-formed-body-accepted")
	vrt.Assert(rows == total, "every-sample-handed-over-once")
	vrt.Reach("end")
}
