//go:build verif

// verif:pkg writer/utils/unmarshal
package unmarshal

import (
	"github.com/metrico/qryn/writer/model"
	"github.com/metrico/qryn/writer/service"
	"github.com/metrico/qryn/writer/service/impl"
	"github.com/metrico/qryn/zzverif/vrt"
	v11 "go.opentelemetry.io/proto/otlp/common/v1"
	resource "go.opentelemetry.io/proto/otlp/resource/v1"
	trace "go.opentelemetry.io/proto/otlp/trace/v1"
)

// VH_C05_otlp_span_ids (same kernel as the C02 pipeline harness, claimed here for "no body crashes ingest"): an OTLP body (decoded message with symbolic id lengths) goes through the real
// decoder, the real onSpan and - if accepted - the real trace and tag ProcessRequest closures into a block
// that already holds another client's row. Whatever the ids look like, the push goroutine does not panic
// and the shared block stays rectangular.
func VH_C05_otlp_span_ids() {
	vrt.Unwind(300)
	tl := vrt.Len("trace-id-length", 0, 17)
	sl := vrt.Len("span-id-length", 0, 9)
	span := &trace.Span{
		TraceId: vrt.Bytes("trace-id", tl), SpanId: vrt.Bytes("span-id", sl), Name: "op",
		StartTimeUnixNano: vrt.Uint64("start"), EndTimeUnixNano: vrt.Uint64("end"),
		Attributes: []*v11.KeyValue{{Key: "k", Value: &v11.AnyValue{Value: &v11.AnyValue_StringValue{StringValue: vrt.String("attr", 1)}}}},
	}
	body := &trace.TracesData{ResourceSpans: []*trace.ResourceSpans{{
		Resource:   &resource.Resource{},
		ScopeSpans: []*trace.ScopeSpans{{Spans: []*trace.Span{span}}},
	}}}
	pd := &parserDoer{ctx: &ParserCtx{bodyObject: body}, payloadType: 2}
	pd.resetSpans()
	dec := &OTLPDecoder{ctx: pd.ctx}
	dec.SetOnEntry(pd.onSpan)
	err := dec.Decode()

	service.CreateColPools(4)
	spansSvc := impl.NewTempoSamplesInsertService(model.InsertServiceOpts{Node: &model.DataDatabasesMap{}}).(*service.InsertServiceV2Multimodal)
	tagsSvc := impl.NewTempoTagsInsertService(model.InsertServiceOpts{Node: &model.DataDatabasesMap{}}).(*service.InsertServiceV2Multimodal)
	cols := spansSvc.AcquireColumns()
	tcols := tagsSvc.AcquireColumns()
	// another client's span is already in the shared block
	other := &model.TempoSamples{MTraceId: [][]byte{make([]byte, 16)}, MSpanId: [][]byte{make([]byte, 8)}, MTimestampNs: []int64{1},
		MDurationNs: []int64{1}, MParentId: []string{""}, MName: []string{"o"}, MServiceName: []string{"s"}, MPayloadType: []int8{2}, MPayload: [][]byte{[]byte("p")}}
	_, cols, _ = spansSvc.ProcessRequest(other, cols)
	if err != nil {
		vrt.Assert(tl != 16 || sl != 8, "well-formed-span-accepted")
		vrt.Assert(len(pd.spans.MTraceId) == 0, "rejected-span-leaves-no-partial-row")
		vrt.Reach("rejected")
		return
	}
	n, cols, perr := spansSvc.ProcessRequest(pd.spans, cols)
	vrt.Assert(perr == nil && n == 1, "one-trace-row-per-span")
	for _, c := range cols {
		vrt.Assert(c.Input().Data.Rows() == 2, "trace-block-rectangular")
	}
	nt, tcols, terr := tagsSvc.ProcessRequest(pd.attrs, tcols)
	vrt.Assert(terr == nil, "tags-accepted")
	vrt.Assert(nt == len(pd.attrs.MKey), "one-tag-row-per-flattened-attribute")
	for _, c := range tcols {
		vrt.Assert(c.Input().Data.Rows() == nt, "tag-block-rectangular")
	}
	vrt.Reach("accepted")
}
