//go:build verif

// verif:pkg writer/controller
package controllerv1

import (
	"bytes"
	"io"
	"net/http"

	"github.com/metrico/qryn/zzverif/vrt"
)

// VH_C05_content_encoding: the first ingest middleware (WithOverallContextMiddleware: tenant headers, TTL,
// Content-Encoding) over every body of 0..3 symbolic bytes and a well-formed gzip body, for the encodings
// "", gzip, snappy and an unknown one: it either reports an error (answered by ErrorHandler with a status
// >= 400) or leaves a request body that can be read to its end - reading never panics and never spins.
func VH_C05_content_encoding() {
	vrt.Unwind(4000)
	vrt.ConcreteUnwind(400000)
	enc := []string{"", "gzip", "snappy", "br"}[vrt.Choice("content-encoding", 4)]
	var body []byte
	if vrt.Bool("well-formed-gzip-body") {
		body = []byte{31, 139, 8, 0, 0, 0, 0, 0, 2, 255, 203, 200, 4, 0, 172, 42, 147, 216, 2, 0, 0, 0}
	} else {
		body = vrt.Bytes("body", vrt.Len("body-len", 0, 3))
	}
	r, _ := http.NewRequest("POST", "/loki/api/v1/push", bytes.NewReader(body))
	if enc != "" {
		r.Header.Set("Content-Encoding", enc)
	}
	r.Header.Set("X-Ttl-Days", vrt.String("ttl-header", vrt.Len("ttl-header-len", 0, 2)))
	pc := WithOverallContextMiddleware(&PusherCtx{})
	vrt.Assert(len(pc.PreRequest) == 1, "middleware-registered")
	w := &vhResp2{}
	err := pc.PreRequest[0](w, r)
	if err != nil {
		ErrorHandler(w, r, err)
		vrt.Assert(w.status >= 400, "rejected-with-an-error-status")
		vrt.Reach("rejected")
		return
	}
	buf := make([]byte, 8)
	total := 0
	for i := 0; i < 64; i++ {
		n, rerr := r.Body.Read(buf)
		total += n
		if rerr != nil {
			vrt.Reach("body-read-to-its-end")
			vrt.Reach("end")
			return
		}
		vrt.Assert(n > 0 || i < 8, "reader-makes-progress")
	}
	vrt.Assert(false, "body-ends")
	_ = io.EOF
}

type vhResp2 struct {
	status int
	hdr    http.Header
}

func (w *vhResp2) Header() http.Header {
	if w.hdr == nil {
		w.hdr = http.Header{}
	}
	return w.hdr
}
func (w *vhResp2) Write(b []byte) (int, error) {
	if w.status == 0 {
		w.status = 200
	}
	return len(b), nil
}
func (w *vhResp2) WriteHeader(code int) {
	if w.status == 0 {
		w.status = code
	}
}
