//go:build verif

// verif:pkg writer/utils/unmarshal
package unmarshal

import (
	"context"
	"errors"

	"github.com/metrico/qryn/writer/model"
	"github.com/metrico/qryn/zzverif/vrt"
)

// vhErrReader stands for the request body: the third-party pprof/multipart decoders are environment,
// so the body read fails immediately and Decode returns right after its own parameter handling.
type vhErrReader struct{}

func (vhErrReader) Read(p []byte) (int, error) { return 0, errors.New("body: environment") }

// vhDrain reads the parser channel like the controller does and returns the number of responses.
func vhDrain(ch chan *model.ParserResponse) (n int, errs int) {
	for r := range ch {
		n++
		if r.Error != nil {
			errs++
		}
	}
	return
}

func vhProfileDoer(binary bool, from, until, name string) *parserDoer {
	ctx := &ParserCtx{bodyReader: vhErrReader{}, ctx: context.Background(), ctxMap: map[string]string{}}
	ctx.ctxMap["from"] = from
	ctx.ctxMap["until"] = until
	ctx.ctxMap["name"] = name
	d := &parserDoer{ctx: ctx}
	if binary {
		d.ProfileParser = &binaryStreamPProfProtoDec{pProfProtoDec{ctx: ctx}}
	} else {
		d.ProfileParser = &pProfProtoDec{ctx: ctx}
	}
	return d
}

// VH_C05_pprof_times_arith: any from/until query parameter values (here: every string of at most one
// byte, which includes "", "0", digits and garbage) end in exactly one response and a closed channel;
// the parser goroutine neither spins nor dies.
func VH_C05_pprof_times_arith() {
	vrt.CheckLeaks()
	vrt.Unwind(24)
	binary := vrt.Bool("binary-endpoint")
	from := vrt.String("from", vrt.Len("from-len", 0, 1))
	until := vrt.String("until", vrt.Len("until-len", 0, 1))
	if vrt.KnownFinding("C05-pprof-from-zero", from == "0") {
		return
	}
	if vrt.KnownFinding("C05-pprof-until-zero", until == "0") {
		return
	}
	if vrt.KnownFinding("C05-pprof-until-unparsable", !binary && (until == "" || until[0] < '0' || until[0] > '9')) {
		return
	}
	d := vhProfileDoer(binary, from, until, "cpu")
	n, _ := vhDrain(d.Do())
	vrt.Assert(n == 1, "exactly-one-response")
	vrt.Reach("end")
}

// VH_C05_pprof_name: any `name` parameter (<= 4 ASCII bytes, any of them '{', '}', '=', ',') is answered.
func VH_C05_pprof_name() {
	vrt.CheckLeaks()
	vrt.Unwind(24)
	binary := vrt.Bool("binary-endpoint")
	maxLen := 3
	if vrt.Thorough() {
		maxLen = 5
	}
	nb := vrt.Bytes("name", vrt.Len("name-len", 0, maxLen))
	for i := range nb {
		vrt.Assume(nb[i] < 0x80)
	}
	d := vhProfileDoer(binary, "1700000000", "1700000010", string(nb))
	n, errs := vhDrain(d.Do())
	vrt.Assert(n == 1, "exactly-one-response")
	vrt.Assert(errs == 1, "body-read-error-or-parameter-error-reported")
	vrt.Reach("end")
}
