//go:build verif

// verif:pkg writer/utils/unmarshal
package unmarshal

import (
	"bytes"

	"github.com/metrico/qryn/zzverif/vrt"
)

// VH_C05_lokijson_any_bytes: EVERY byte string up to the bound as the body of a Loki JSON push, through the
// real streaming decoder (go-faster/jx executed from SSA): the decode call returns (rows or an error) - no
// unrecovered panic, no loop beyond the unwinding bound - and what it hands to the batcher has columns of
// equal length. A prefix that opens the streams array can be prepended so that the symbolic bytes land
// inside the nested structure as well.
func VH_C05_lokijson_any_bytes() {
	vrt.Unwind(4000)
	vrt.ConcreteUnwind(400000)
	maxLen := 6
	if vrt.Thorough() {
		maxLen = 7
	}
	prefix := []string{"", `{"streams":[`, `{"streams":[{"stream":{"a":"b"},"values":[`}[vrt.Choice("prefix", 3)]
	body := prefix + vrt.String("body", vrt.Len("body-len", 0, maxLen))
	dec := &pushRequestDec{ctx: &ParserCtx{bodyReader: bytes.NewReader([]byte(body))}}
	rows := 0
	dec.SetOnEntries(func(labels [][]string, tsns []int64, msg []string, value []float64, types []uint8) error {
		vrt.Assert(len(msg) == len(tsns) && len(value) == len(tsns) && len(types) == len(tsns), "portion-columns-of-equal-length")
		rows += len(tsns)
		return nil
	})
	err := dec.Decode()
	if err != nil {
		vrt.Reach("rejected")
	} else {
		vrt.Reach("accepted")
	}
	vrt.Reach("end")
}
