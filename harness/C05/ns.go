//go:build verif

// verif:pkg writer/utils/unmarshal
package unmarshal

import "github.com/metrico/qryn/zzverif/vrt"

// VH_C05_ns: the timestamp scaling loop used for the pprof `from`/`until` query parameters must
// terminate for every 64-bit value (the parameters are parsed with ParseUint and reach ns() unchecked).
func VH_C05_ns_arith() {
	vrt.Unwind(24) // 10^19 > 2^63: at most 19 multiplications are ever needed for a non-zero value
	x := vrt.Uint64("from")
	if vrt.KnownFinding("C05-ns-zero", x == 0) {
		return
	}
	r := ns(x)
	if x != 0 {
		vrt.Assert(r >= 1000000000000000000, "ns-result-reaches-nanosecond-magnitude")
	}
	vrt.Reach("end")
}
