//go:build verif

// verif:pkg writer/utils/unmarshal
package unmarshal

import (
	"bytes"
	"context"
	"time"

	"github.com/metrico/qryn/zzverif/vrt"
)

// VH_C05_decoder_columns: what the text decoders hand to the batcher has columns of equal length whatever the
// (valid) request looks like - the insert service appends each column unchecked into the batch shared with
// other clients' rows. Bodies: Datadog series (1-3 series x 0-2 points), Influx (1-2 lines), legacy Loki layout
// (1-2 streams x 0-2 entries); structure is nondeterministic, leaves are concrete.
func VH_C05_decoder_columns() {
	vrt.Unwind(4000)
	vrt.ConcreteUnwind(600000)
	equal := func(labels [][]string, tsns []int64, msg []string, value []float64, types []uint8) error {
		vrt.Assert(len(msg) == len(tsns) && len(value) == len(tsns) && len(types) == len(tsns), "portion-columns-of-equal-length")
		return nil
	}
	var err error
	switch vrt.Choice("decoder", 3) {
	case 0:
		body := `{"series":[`
		for s, ns := 0, vrt.Len("series", 1, 3); s < ns; s++ {
			if s > 0 {
				body += ","
			}
			body += `{"metric":"m` + string(rune('a'+s)) + `","points":[`
			for p, np := 0, vrt.Len("points", 0, 2); p < np; p++ {
				if p > 0 {
					body += ","
				}
				body += `{"timestamp":170000000` + string(rune('0'+p)) + `,"value":1.5}`
			}
			body += `]}`
		}
		body += `]}`
		dec := &datadogMetricsRequestDec{ctx: &ParserCtx{bodyReader: bytes.NewReader([]byte(body))}}
		dec.SetOnEntries(equal)
		err = dec.Decode()
	case 1:
		body := ""
		for l, nl := 0, vrt.Len("lines", 1, 2); l < nl; l++ {
			if vrt.Bool("log-line") {
				body += `cpu,host=a message="hello" 1700000000000000001` + "\n"
			} else {
				body += `cpu,host=a usage=1i,idle=2.5 1700000000000000002` + "\n"
			}
		}
		ctx := context.WithValue(context.Background(), "precision", time.Nanosecond)
		dec := &influxDec{ctx: &ParserCtx{bodyReader: bytes.NewReader([]byte(body)), ctx: ctx}}
		dec.SetOnEntries(equal)
		err = dec.Decode()
	default:
		body := `{"streams":[`
		for s, ns := 0, vrt.Len("streams", 1, 2); s < ns; s++ {
			if s > 0 {
				body += ","
			}
			body += `{"labels":"{app=\"x\"}","entries":[`
			for e, ne := 0, vrt.Len("entries", 0, 2); e < ne; e++ {
				if e > 0 {
					body += ","
				}
				switch vrt.Choice("entry-kind", 3) {
				case 0:
					body += `{"ts":"1700000000000000001","line":"l"}`
				case 1:
					body += `{"ts":"1700000000000000001","value":2.5}`
				default:
					body += `{"ts":"1700000000000000001"}`
				}
			}
			body += `]}`
		}
		body += `]}`
		dec := &pushRequestDec{ctx: &ParserCtx{bodyReader: bytes.NewReader([]byte(body))}}
		dec.SetOnEntries(equal)
		err = dec.Decode()
	}
	vrt.Assert(err == nil, "valid-body-accepted")
	vrt.Reach("end")
}
