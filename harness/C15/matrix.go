//go:build verif

// verif:pkg reader/service
package service

import (
	"context"

	"github.com/metrico/qryn/reader/logql/logql_parser"
	"github.com/metrico/qryn/reader/logql/logql_transpiler_v2/shared"
	"github.com/metrico/qryn/reader/model"
	"github.com/metrico/qryn/reader/plugins"
	"github.com/metrico/qryn/zzverif/vlib"
	"github.com/metrico/qryn/zzverif/vrt"
)

// a LogQL planner plugin (qryn's own extension point) that replaces the request chain by a processor
// replaying scripted matrix batches: the response writer is then driven by "what the engine returned"
type vmPlanner struct{ batches [][]shared.LogEntry }

func (p *vmPlanner) Plan(script *logql_parser.LogQLScript) (shared.RequestProcessorChain, error) {
	return shared.RequestProcessorChain{&vmProcessor{p.batches}}, nil
}

type vmProcessor struct{ batches [][]shared.LogEntry }

func (p *vmProcessor) IsMatrix() bool { return true }
func (p *vmProcessor) Process(*shared.PlannerContext, chan []shared.LogEntry) (chan []shared.LogEntry, error) {
	out := make(chan []shared.LogEntry)
	go func() {
		defer close(out)
		for _, b := range p.batches {
			out <- b
		}
	}()
	return out, nil
}

// VH_C15_matrix: the query_range matrix writer (inline in the real QueryRangeService.QueryRange) over points
// sorted by fingerprint (0 allowed) cut into any channel batches: the body is ONE valid JSON document with
// one series object per fingerprint run carrying its own labels, every point once under its own series,
// timestamps rendered as seconds with the millisecond part intact, integral values rendered exactly.
func VH_C15_matrix() {
	vrt.CheckLeaks()
	vrt.ExpectBackgroundGoroutines(1) // dbVersion's cache-expiry sleeper (10 s), started once per process
	vrt.Unwind(600)
	vrt.Option("opaque-logql-parser")
	maxPts := 2
	n := vrt.Len("points", 0, maxPts)
	type pt struct {
		fp  uint64
		ts  int64
		val int64
	}
	pts := make([]pt, n)
	var batches [][]shared.LogEntry
	var cur []shared.LogEntry
	for i := range pts {
		pts[i].fp = uint64(vrt.Choice("fingerprint", 3))
		if i > 0 {
			vrt.Assume(pts[i-1].fp <= pts[i].fp)
		}
		// the writer formats float64(ns)/1e9 with %f: concrete instants from a table (symbolic float formatting
		// is not modelled)
		secs := []int64{1700000001}
		if vrt.Thorough() {
			secs = []int64{1700000000, 1700000001, 1799999999}
		}
		sec := secs[vrt.Choice("seconds", len(secs))]
		ms := []int64{0, 5, 50, 250, 999}[vrt.Choice("millisecond-part", 5)]
		pts[i].ts = sec*1000000000 + ms*1000000
		pts[i].val = []int64{0, -7, 1000000}[vrt.Choice("value", 3)]
		if vrt.Bool("cut-batch-here") {
			batches = append(batches, cur)
			cur = nil
		}
		cur = append(cur, shared.LogEntry{TimestampNS: pts[i].ts, Fingerprint: pts[i].fp, Value: float64(pts[i].val),
			Labels: map[string]string{"name": "s" + string(rune('0'+pts[i].fp))}})
	}
	batches = append(batches, cur)
	plugins.RegisterLogQLPlannerPlugin("verif", &vmPlanner{batches})
	svc := &QueryRangeService{ServiceData: model.ServiceData{Session: &vlRegistry{&vlDB{}}}} // empty result sets
	res, err := svc.QueryRange(context.Background(), `rate({a="b"}[1m])`, 1700000000000000000, 1800000000000000000, 250, 100, true)
	vrt.Assert(err == nil, "request-accepted")
	body := ""
	for o := range res {
		vrt.Assert(o.Err == nil, "no-error-chunk")
		body += o.Str
	}
	doc, ok := vlib.JSONParse(body)
	vrt.Assert(ok, "body-is-one-valid-json-document")
	vrt.Assert(doc.Get("status") != nil && doc.Get("status").Str == "success", "status-success")
	vrt.Assert(doc.Get("data").Get("resultType") != nil && doc.Get("data").Get("resultType").Str == "matrix", "result-type-matrix")
	result := doc.Get("data").Get("result")
	vrt.Assert(result != nil && result.Kind == 'a', "result-is-an-array")
	groups := 0
	for i := range pts {
		if i == 0 || pts[i].fp != pts[i-1].fp {
			groups++
		}
	}
	vrt.Assert(len(result.Arr) == groups, "one-series-object-per-fingerprint-run")
	k := 0
	for _, s := range result.Arr {
		metric, values := s.Get("metric"), s.Get("values")
		vrt.Assert(metric != nil && metric.Kind == 'o' && values != nil && values.Kind == 'a' && len(values.Arr) > 0, "series-object-shape")
		fp := pts[k].fp
		vrt.Assert(metric.Get("name") != nil && metric.Get("name").Str == "s"+string(rune('0'+fp)), "series-carries-its-own-labels")
		for _, v := range values.Arr {
			vrt.Assert(k < n && pts[k].fp == fp, "point-under-its-own-series")
			vrt.Assert(v.Kind == 'a' && len(v.Arr) == 2 && v.Arr[0].Kind == 'n' && v.Arr[1].Kind == 's', "point-shape")
			// seconds.fraction: integer part = seconds, fraction (padded to 3+ digits) starts with the milliseconds
			sec, ms := vlib.SplitDecimal(v.Arr[0].Str)
			vrt.Assert(sec == pts[k].ts/1000000000, "point-seconds")
			vrt.Assert(ms == (pts[k].ts%1000000000)/1000000, "point-milliseconds-intact")
			vrt.Assert(vlib.ParseDecimal(v.Arr[1].Str) == pts[k].val, "integral-value-rendered-exactly")
			k++
		}
	}
	vrt.Assert(k == n, "every-point-appears-once")
	vrt.Reach("end")
}
