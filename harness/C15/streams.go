//go:build verif

// verif:pkg reader/service
package service

import (
	"io"

	"github.com/metrico/qryn/reader/logql/logql_transpiler_v2/shared"
	"github.com/metrico/qryn/reader/model"
	"github.com/metrico/qryn/zzverif/vlib"
	"github.com/metrico/qryn/zzverif/vrt"
)

type vsRow struct {
	fp  uint64
	ts  int64
	msg string
}

// vsFeed sends rows cut into channel batches at nondeterministic points (empty batches included).
func vsFeed(rows []vsRow, labels map[uint64]map[string]string, out chan []shared.LogEntry) {
	// the scanners mark the end of a result set with an entry carrying io.EOF; regrouping stages may emit it
	// before groups that still hold rows: optionally one early marker in front of the last row, always one at the very end
	early := len(rows) // none
	if len(rows) > 0 && len(rows) <= 2 && vrt.Bool("early-end-marker-before-the-last-row") { // 3-row sets (thorough) keep the marker at the end
		early = len(rows) - 1
	}
	go func() {
		var batch []shared.LogEntry
		for i, r := range rows {
			if vrt.Bool("cut-batch-here") {
				out <- batch
				batch = nil
				if vrt.Bool("empty-batch") {
					out <- nil
				}
			}
			if i == early {
				batch = append(batch, shared.LogEntry{Err: io.EOF})
			}
			batch = append(batch, shared.LogEntry{TimestampNS: r.ts, Fingerprint: r.fp, Labels: labels[r.fp], Message: r.msg})
		}
		batch = append(batch, shared.LogEntry{Err: io.EOF})
		out <- batch
		close(out)
	}()
}

func vsCollect(res chan model.QueryRangeOutput) (string, int) {
	body := ""
	errs := 0
	for o := range res {
		body += o.Str
		if o.Err != nil {
			errs++
		}
	}
	return body, errs
}

// VH_C15_streams: for any rows sorted by fingerprint (fingerprint 0 allowed) cut into any channel batches,
// the query_range "streams" body is ONE valid JSON document with exactly one stream object per maximal
// run of equal fingerprints, each row once, under its own stream, with its own labels.
func VH_C15_streams() {
	vrt.CheckLeaks()
	vrt.Unwind(400)
	maxRows := 2
	if vrt.Thorough() {
		maxRows = 3
	}
	n := vrt.Len("rows", 0, maxRows)
	rows := make([]vsRow, n)
	labels := map[uint64]map[string]string{}
	for i := range rows {
		rows[i].fp = uint64(vrt.Choice("fingerprint", 3)) // 0, 1, 2
		if i > 0 {
			vrt.Assume(rows[i-1].fp <= rows[i].fp) // ORDER BY fingerprint
		}
		rows[i].ts = vrt.Int64("ts")
		// 19-digit nanosecond timestamps (2023..2027): the digit count is fixed, the digits are symbolic
		vrt.Assume(rows[i].ts >= 1700000000000000000)
		vrt.Assume(rows[i].ts < 1800000000000000000)
		rows[i].msg = vrt.String("line", 1)
		vrt.Assume(rows[i].msg[0] >= 0x20) // control bytes only exercise the jsoniter model's own escaping
		if _, ok := labels[rows[i].fp]; !ok {
			lv := vrt.String("labelvalue", 1)
			vrt.Assume(lv[0] >= 0x20)
			labels[rows[i].fp] = map[string]string{"app": lv}
		}
	}
	zeroFirst := n > 0 && rows[0].fp == 0
	if vrt.KnownFinding("C15-first-stream-fingerprint-zero", zeroFirst) {
		return
	}
	out := make(chan []shared.LogEntry)
	res := make(chan model.QueryRangeOutput)
	vsFeed(rows, labels, out)
	q := &QueryRangeService{}
	go q.exportStreamsValue(out, res)
	body, errs := vsCollect(res)
	vrt.Assert(errs == 0, "no-error-chunk")
	doc, ok := vlib.JSONParse(body)
	vrt.Assert(ok, "body-is-one-valid-json-document")
	vrt.Assert(doc.Get("status") != nil && doc.Get("status").Str == "success", "status-success")
	result := doc.Get("data").Get("result")
	vrt.Assert(result != nil && result.Kind == 'a', "result-is-an-array")
	// expected grouping
	groups := 0
	for i := range rows {
		if i == 0 || rows[i].fp != rows[i-1].fp {
			groups++
		}
	}
	vrt.Assert(len(result.Arr) == groups, "one-stream-object-per-fingerprint-run")
	ri := 0
	for _, s := range result.Arr {
		vals := s.Get("values")
		st := s.Get("stream")
		vrt.Assert(vals != nil && vals.Kind == 'a' && st != nil && st.Kind == 'o', "stream-object-shape")
		vrt.Assert(len(vals.Arr) > 0, "no-empty-stream")
		fp := rows[ri].fp
		vrt.Assert(st.Get("app") != nil && st.Get("app").Str == labels[fp]["app"], "stream-carries-its-own-labels")
		for _, v := range vals.Arr {
			vrt.Assert(ri < n, "no-extra-row")
			vrt.Assert(rows[ri].fp == fp, "row-under-its-own-stream")
			vrt.Assert(v.Kind == 'a' && len(v.Arr) == 2, "value-entry-shape")
			vrt.Assert(v.Arr[1].Str == rows[ri].msg, "row-line-roundtrips")
			vrt.Assert(vlib.ParseDecimal(v.Arr[0].Str) == rows[ri].ts, "row-timestamp-rendered-without-loss")
			ri++
		}
	}
	vrt.Assert(ri == n, "every-row-appears-once")
	vrt.Reach("end")
}
