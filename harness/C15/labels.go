//go:build verif

// verif:pkg reader/service
package service

import (
	"context"
	"database/sql"

	"github.com/metrico/cloki-config/config"
	"github.com/metrico/qryn/reader/model"
	"github.com/metrico/qryn/zzverif/vlib"
	"github.com/metrico/qryn/zzverif/vrt"
	"github.com/metrico/qryn/zzverif/vsql"
)

// a database whose every query returns the scripted label rows
type vlDB struct{ vals []string }

func (d *vlDB) GetName() string { return "scripted" }
func (d *vlDB) QueryCtx(ctx context.Context, query string, args ...any) (*sql.Rows, error) {
	data := make([][]any, len(d.vals))
	for i, v := range d.vals {
		data[i] = []any{v}
	}
	return vsql.Rows([]string{"val"}, data), nil
}
func (d *vlDB) ExecCtx(ctx context.Context, query string, args ...any) error { return nil }
func (d *vlDB) Conn(ctx context.Context) (*sql.Conn, error)                    { return nil, nil }
func (d *vlDB) Begin() (*sql.Tx, error)                                        { return nil, nil }
func (d *vlDB) Close()                                                         {}

type vlRegistry struct{ db *vlDB }

func (r *vlRegistry) GetDB(ctx context.Context) (*model.DataDatabasesMap, error) {
	return &model.DataDatabasesMap{Config: &config.ClokiBaseDataBase{}, Session: r.db}, nil
}
func (r *vlRegistry) Run()        {}
func (r *vlRegistry) Stop()       {}
func (r *vlRegistry) Ping() error { return nil }

// VH_C15_labels: the label-list writer behind the Loki labels / label values and Prometheus label
// endpoints. For any rows of label strings made of any ASCII bytes (control bytes, quotes, backslashes,
// <, >, & included) the concatenated chunks are ONE valid JSON document {"status":"success","data":[...]}
// whose data array holds exactly the rows' strings, in order.
func VH_C15_labels() {
	vrt.CheckLeaks()
	vrt.Unwind(400)
	// bytes are escaped independently of each other: quick = up to 2 rows of up to 2 bytes; thorough adds a
	// single row of 3-4 bytes (every combination of escape classes next to each other) instead of multiplying
	// rows by lengths
	maxRows, minLen, maxLen := 2, 0, 2
	if vrt.Thorough() && vrt.Bool("one-long-row") {
		maxRows, minLen, maxLen = 1, 3, 4
	}
	n := vrt.Len("rows", 0, maxRows)
	vals := make([]string, n)
	for i := range vals {
		vals[i] = vrt.String("label", vrt.Len("label-len", minLen, maxLen))
		for j := 0; j < len(vals[i]); j++ {
			vrt.Assume(vals[i][j] < 0x80) // non-ASCII: UTF-8 validity is a separate question (out of scope)
		}
	}
	q := &QueryLabelsService{ServiceData: model.ServiceData{Session: &vlRegistry{&vlDB{vals}}}}
	res, err := q.GenericLabelReq(context.Background(), "SELECT val")
	vrt.Assert(err == nil, "request-accepted")
	body := ""
	for chunk := range res {
		body += chunk
	}
	doc, ok := vlib.JSONParse(body)
	vrt.Assert(ok, "body-is-one-valid-json-document")
	vrt.Assert(doc.Get("status") != nil && doc.Get("status").Str == "success", "status-success")
	data := doc.Get("data")
	vrt.Assert(data != nil && data.Kind == 'a', "data-is-an-array")
	vrt.Assert(len(data.Arr) == n, "one-array-element-per-row")
	for i := range vals {
		vrt.Assert(data.Arr[i].Kind == 's', "element-is-a-string")
		vrt.Assert(data.Arr[i].Str == vals[i], "label-roundtrips")
	}
	vrt.Reach("end")
}
