package vlib

// JSONString parses an RFC 8259 string starting at s[i] == '"'. Returns the decoded bytes, the index
// after the closing quote, and ok=false if the text is not a valid JSON string.
func JSONString(s string, i int) (val []byte, next int, ok bool) {
	n := len(s)
	if i >= n || s[i] != '"' {
		return nil, i, false
	}
	i++
	for i < n {
		c := s[i]
		if c == '"' {
			return val, i + 1, true
		}
		if c < 0x20 {
			return nil, i, false // control characters must be escaped
		}
		if c == '\\' {
			if i+1 >= n {
				return nil, i, false
			}
			e := s[i+1]
			switch e {
			case '"', '\\', '/':
				val = append(val, e)
			case 'b':
				val = append(val, '\b')
			case 'f':
				val = append(val, '\f')
			case 'n':
				val = append(val, '\n')
			case 'r':
				val = append(val, '\r')
			case 't':
				val = append(val, '\t')
			case 'u':
				if i+5 >= n {
					return nil, i, false
				}
				r := 0
				for k := 2; k < 6; k++ {
					h := hexVal(s[i+k])
					if h < 0 {
						return nil, i, false
					}
					r = r*16 + h
				}
				// UTF-8 encode (surrogate pairs are not produced by the code under test; treated as invalid)
				switch {
				case r < 0x80:
					val = append(val, byte(r))
				case r < 0x800:
					val = append(val, byte(0xC0|r>>6), byte(0x80|r&0x3F))
				case r >= 0xD800 && r <= 0xDFFF:
					return nil, i, false
				default:
					val = append(val, byte(0xE0|r>>12), byte(0x80|(r>>6)&0x3F), byte(0x80|r&0x3F))
				}
				i += 6
				continue
			default:
				return nil, i, false // \a \v \x.. \U........ are not JSON
			}
			i += 2
			continue
		}
		val = append(val, c)
		i++
	}
	return nil, i, false
}

// JSONFlatObject parses {"k":"v",...} with string values only (no whitespace tolerance beyond single
// spaces) and returns the pairs in document order.
func JSONFlatObject(s string) (pairs [][2]string, ok bool) {
	n := len(s)
	if n < 2 || s[0] != '{' || s[n-1] != '}' {
		return nil, false
	}
	i := 1
	if i == n-1 {
		return nil, true
	}
	for {
		k, j, ok1 := JSONString(s, i)
		if !ok1 {
			return nil, false
		}
		i = j
		if i >= n || s[i] != ':' {
			return nil, false
		}
		i++
		v, j2, ok2 := JSONString(s, i)
		if !ok2 {
			return nil, false
		}
		i = j2
		pairs = append(pairs, [2]string{string(k), string(v)})
		if i >= n {
			return nil, false
		}
		if s[i] == '}' {
			return pairs, i == n-1
		}
		if s[i] != ',' {
			return nil, false
		}
		i++
	}
}
