package vlib

// ParseDecimal parses an optionally signed decimal integer; returns -1<<63 on syntax error.
func ParseDecimal(s string) int64 {
	if len(s) == 0 {
		return -1 << 63
	}
	i := 0
	neg := false
	if s[0] == '-' {
		neg = true
		i = 1
	}
	if i >= len(s) {
		return -1 << 63
	}
	var n int64
	for ; i < len(s); i++ {
		c := s[i]
		if c < '0' || c > '9' {
			return -1 << 63
		}
		n = n*10 + int64(c-'0')
	}
	if neg {
		return -n
	}
	return n
}

// DayOf returns the day number (days since 1970-01-01) of a date string: either a real ISO date
// "YYYY-MM-DD" or the symbolic executor's token "#" + 8-digit day number. -1 on syntax error.
func DayOf(s string) int64 {
	if len(s) == 9 && s[0] == '#' {
		return ParseDecimal(s[1:])
	}
	if len(s) != 10 || s[4] != '-' || s[7] != '-' {
		return -1
	}
	y, m, d := ParseDecimal(s[0:4]), ParseDecimal(s[5:7]), ParseDecimal(s[8:10])
	if y < 0 || m < 1 || m > 12 || d < 1 || d > 31 {
		return -1
	}
	// days from civil (Howard Hinnant)
	if m <= 2 {
		y--
	}
	era := y / 400
	yoe := y - era*400
	mp := (m + 9) % 12
	doy := (153*mp+2)/5 + d - 1
	doe := yoe*365 + yoe/4 - yoe/100 + doy
	return era*146097 + doe - 719468
}

// SplitDecimal splits a non-negative decimal number "123.045600" into its integer part and the first three
// fraction digits read as milliseconds (a shorter fraction is padded with zeros: "1.5" -> 1, 500).
// Returns (-1, -1) on syntax error.
func SplitDecimal(s string) (int64, int64) {
	dot := -1
	for i := 0; i < len(s); i++ {
		if s[i] == '.' {
			dot = i
			break
		}
	}
	if dot < 0 {
		n := ParseDecimal(s)
		if n < 0 {
			return -1, -1
		}
		return n, 0
	}
	ip := ParseDecimal(s[:dot])
	if ip < 0 || dot+1 >= len(s) {
		return -1, -1
	}
	var ms int64
	for k := 0; k < 3; k++ {
		ms *= 10
		if dot+1+k < len(s) {
			c := s[dot+1+k]
			if c < '0' || c > '9' {
				return -1, -1
			}
			ms += int64(c - '0')
		}
	}
	for i := dot + 1; i < len(s); i++ {
		if s[i] < '0' || s[i] > '9' {
			return -1, -1
		}
	}
	return ip, ms
}
