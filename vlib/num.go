package vlib

// ParseDecimal parses an optionally signed decimal integer; returns -1<<63 on syntax error.
func ParseDecimal(s string) int64 {
	if len(s) == 0 {
		return -1 << 63
	}
	i := 0
	neg := false
	if s[0] == '-' {
		neg = true
		i = 1
	}
	if i >= len(s) {
		return -1 << 63
	}
	var n int64
	for ; i < len(s); i++ {
		c := s[i]
		if c < '0' || c > '9' {
			return -1 << 63
		}
		n = n*10 + int64(c-'0')
	}
	if neg {
		return -n
	}
	return n
}
