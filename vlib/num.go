package vlib

// ParseDecimal parses an optionally signed decimal integer; returns -1<<63 on syntax error.
func ParseDecimal(s string) int64 {
	if len(s) == 0 {
		return -1 << 63
	}
	i := 0
	neg := false
	if s[0] == '-' {
		neg = true
		i = 1
	}
	if i >= len(s) {
		return -1 << 63
	}
	var n int64
	for ; i < len(s); i++ {
		c := s[i]
		if c < '0' || c > '9' {
			return -1 << 63
		}
		n = n*10 + int64(c-'0')
	}
	if neg {
		return -n
	}
	return n
}

// DayOf returns the day number (days since 1970-01-01) of a date string: either a real ISO date
// "YYYY-MM-DD" or the symbolic executor's token "#" + 8-digit day number. -1 on syntax error.
func DayOf(s string) int64 {
	if len(s) == 9 && s[0] == '#' {
		return ParseDecimal(s[1:])
	}
	if len(s) != 10 || s[4] != '-' || s[7] != '-' {
		return -1
	}
	y, m, d := ParseDecimal(s[0:4]), ParseDecimal(s[5:7]), ParseDecimal(s[8:10])
	if y < 0 || m < 1 || m > 12 || d < 1 || d > 31 {
		return -1
	}
	// days from civil (Howard Hinnant)
	if m <= 2 {
		y--
	}
	era := y / 400
	yoe := y - era*400
	mp := (m + 9) % 12
	doy := (153*mp+2)/5 + d - 1
	doe := yoe*365 + yoe/4 - yoe/100 + doy
	return era*146097 + doe - 719468
}
