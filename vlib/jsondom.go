package vlib

// JV is a parsed JSON value.
type JV struct {
	Kind byte // 'o' object, 'a' array, 's' string, 'n' number, 't' true, 'f' false, 'z' null
	Str  string
	Arr  []*JV
	Keys []string
	Vals []*JV
}

// Get returns the value of key k of an object (nil if absent).
func (v *JV) Get(k string) *JV {
	if v == nil || v.Kind != 'o' {
		return nil
	}
	for i, key := range v.Keys {
		if key == k {
			return v.Vals[i]
		}
	}
	return nil
}

func skipWS(s string, i int) int {
	for i < len(s) && (s[i] == ' ' || s[i] == '\t' || s[i] == '\n' || s[i] == '\r') {
		i++
	}
	return i
}

// JSONParse parses exactly one RFC 8259 document (ok=false on any syntax error or trailing bytes).
func JSONParse(s string) (*JV, bool) {
	v, i, ok := jsonValue(s, skipWS(s, 0), 0)
	if !ok {
		return nil, false
	}
	i = skipWS(s, i)
	if i != len(s) {
		return nil, false
	}
	return v, true
}

func jsonValue(s string, i int, depth int) (*JV, int, bool) {
	if i >= len(s) || depth > 12 {
		return nil, i, false
	}
	c := s[i]
	switch {
	case c == '{':
		v := &JV{Kind: 'o'}
		i = skipWS(s, i+1)
		if i < len(s) && s[i] == '}' {
			return v, i + 1, true
		}
		for {
			k, j, ok := JSONString(s, i)
			if !ok {
				return nil, i, false
			}
			i = skipWS(s, j)
			if i >= len(s) || s[i] != ':' {
				return nil, i, false
			}
			val, j2, ok2 := jsonValue(s, skipWS(s, i+1), depth+1)
			if !ok2 {
				return nil, i, false
			}
			v.Keys = append(v.Keys, string(k))
			v.Vals = append(v.Vals, val)
			i = skipWS(s, j2)
			if i >= len(s) {
				return nil, i, false
			}
			if s[i] == '}' {
				return v, i + 1, true
			}
			if s[i] != ',' {
				return nil, i, false
			}
			i = skipWS(s, i+1)
		}
	case c == '[':
		v := &JV{Kind: 'a'}
		i = skipWS(s, i+1)
		if i < len(s) && s[i] == ']' {
			return v, i + 1, true
		}
		for {
			val, j, ok := jsonValue(s, i, depth+1)
			if !ok {
				return nil, i, false
			}
			v.Arr = append(v.Arr, val)
			i = skipWS(s, j)
			if i >= len(s) {
				return nil, i, false
			}
			if s[i] == ']' {
				return v, i + 1, true
			}
			if s[i] != ',' {
				return nil, i, false
			}
			i = skipWS(s, i+1)
		}
	case c == '"':
		str, j, ok := JSONString(s, i)
		if !ok {
			return nil, i, false
		}
		return &JV{Kind: 's', Str: string(str)}, j, true
	case c == 't':
		if i+4 <= len(s) && s[i:i+4] == "true" {
			return &JV{Kind: 't'}, i + 4, true
		}
		return nil, i, false
	case c == 'f':
		if i+5 <= len(s) && s[i:i+5] == "false" {
			return &JV{Kind: 'f'}, i + 5, true
		}
		return nil, i, false
	case c == 'n':
		if i+4 <= len(s) && s[i:i+4] == "null" {
			return &JV{Kind: 'z'}, i + 4, true
		}
		return nil, i, false
	case c == '-' || (c >= '0' && c <= '9'):
		j := i
		if s[j] == '-' {
			j++
		}
		if j >= len(s) || s[j] < '0' || s[j] > '9' {
			return nil, i, false
		}
		if s[j] == '0' {
			j++
		} else {
			for j < len(s) && s[j] >= '0' && s[j] <= '9' {
				j++
			}
		}
		if j < len(s) && s[j] == '.' {
			j++
			if j >= len(s) || s[j] < '0' || s[j] > '9' {
				return nil, i, false
			}
			for j < len(s) && s[j] >= '0' && s[j] <= '9' {
				j++
			}
		}
		if j < len(s) && (s[j] == 'e' || s[j] == 'E') {
			j++
			if j < len(s) && (s[j] == '+' || s[j] == '-') {
				j++
			}
			if j >= len(s) || s[j] < '0' || s[j] > '9' {
				return nil, i, false
			}
			for j < len(s) && s[j] >= '0' && s[j] <= '9' {
				j++
			}
		}
		return &JV{Kind: 'n', Str: s[i:j]}, j, true
	}
	return nil, i, false
}
