// Package vlib holds oracle code shared by harnesses (executed symbolically from SSA like any other code,
// and natively during replay). It is injected by overlay as github.com/metrico/qryn/zzverif/vlib.
package vlib

// SQLTok is one token of a ClickHouse statement.
type SQLTok struct {
	Kind  byte   // 'S' string literal, 'I' identifier/keyword, 'N' number, 'Q' quoted identifier, 'P' punctuation/operator
	Start int    // offset of the first byte
	End   int    // offset one past the last byte
	Text  string // decoded value for 'S' (ClickHouse escape rules), raw text otherwise
	Punct byte
}

func isIdentStart(c byte) bool {
	return (c >= 'a' && c <= 'z') || (c >= 'A' && c <= 'Z') || c == '_'
}

func isDigit(c byte) bool { return c >= '0' && c <= '9' }

func isSpace(c byte) bool { return c == ' ' || c == '\t' || c == '\n' || c == '\r' || c == '\f' || c == '\v' }

func hexVal(c byte) int {
	switch {
	case c >= '0' && c <= '9':
		return int(c - '0')
	case c >= 'a' && c <= 'f':
		return int(c-'a') + 10
	case c >= 'A' && c <= 'F':
		return int(c-'A') + 10
	}
	return -1
}

// SQLLex tokenizes s the way ClickHouse's lexer does for the constructs qryn emits: whitespace,
// -- and /* */ comments, 'string' literals with backslash escapes and '' doubling, `quoted` and "quoted"
// identifiers, identifiers, numbers, single-character punctuation. ok=false: unterminated literal/comment.
func SQLLex(s string) (toks []SQLTok, ok bool) {
	i := 0
	n := len(s)
	for i < n {
		c := s[i]
		if isSpace(c) {
			i++
			continue
		}
		if c == '-' && i+1 < n && s[i+1] == '-' {
			for i < n && s[i] != '\n' {
				i++
			}
			// a comment swallows the rest of the line: structure changes are visible as missing tokens
			continue
		}
		if c == '/' && i+1 < n && s[i+1] == '*' {
			j := i + 2
			closed := false
			for j+1 < n {
				if s[j] == '*' && s[j+1] == '/' {
					closed = true
					break
				}
				j++
			}
			if !closed {
				return toks, false
			}
			i = j + 2
			continue
		}
		if c == '\'' {
			start := i
			i++
			var val []byte
			closed := false
			for i < n {
				d := s[i]
				if d == '\\' {
					if i+1 >= n {
						return toks, false
					}
					e := s[i+1]
					switch e {
					case 'b':
						val = append(val, '\b')
					case 'f':
						val = append(val, '\f')
					case 'r':
						val = append(val, '\r')
					case 'n':
						val = append(val, '\n')
					case 't':
						val = append(val, '\t')
					case '0':
						val = append(val, 0)
					case 'a':
						val = append(val, 7)
					case 'v':
						val = append(val, 11)
					case 'e':
						val = append(val, 27)
					case 'x':
						if i+3 < n && hexVal(s[i+2]) >= 0 && hexVal(s[i+3]) >= 0 {
							val = append(val, byte(hexVal(s[i+2])*16+hexVal(s[i+3])))
							i += 2
						} else {
							val = append(val, 'x')
						}
					case '\\', '\'', '"', '`', '/', '=':
						val = append(val, e)
					default:
						// unknown escapes (e.g. \% and \_) keep the backslash: LIKE sees them
						val = append(val, '\\', e)
					}
					i += 2
					continue
				}
				if d == '\'' {
					if i+1 < n && s[i+1] == '\'' {
						val = append(val, '\'')
						i += 2
						continue
					}
					closed = true
					i++
					break
				}
				val = append(val, d)
				i++
			}
			if !closed {
				return toks, false
			}
			toks = append(toks, SQLTok{Kind: 'S', Start: start, End: i, Text: string(val)})
			continue
		}
		if c == '`' || c == '"' {
			start := i
			i++
			closed := false
			for i < n {
				d := s[i]
				if d == '\\' {
					i += 2
					continue
				}
				if d == c {
					closed = true
					i++
					break
				}
				i++
			}
			if !closed || i > n {
				return toks, false
			}
			toks = append(toks, SQLTok{Kind: 'Q', Start: start, End: i, Text: s[start:i]})
			continue
		}
		if isIdentStart(c) {
			start := i
			for i < n && (isIdentStart(s[i]) || isDigit(s[i])) {
				i++
			}
			toks = append(toks, SQLTok{Kind: 'I', Start: start, End: i, Text: s[start:i]})
			continue
		}
		if isDigit(c) {
			start := i
			for i < n && (isDigit(s[i]) || s[i] == '.' || isIdentStart(s[i])) {
				i++
			}
			toks = append(toks, SQLTok{Kind: 'N', Start: start, End: i, Text: s[start:i]})
			continue
		}
		toks = append(toks, SQLTok{Kind: 'P', Start: i, End: i + 1, Punct: c, Text: s[i : i+1]})
		i++
	}
	return toks, true
}

// SQLShape renders the token-kind sequence; punctuation and identifiers are spelled out, literals are not.
func SQLShape(toks []SQLTok) string {
	var out []byte
	for _, t := range toks {
		switch t.Kind {
		case 'S':
			out = append(out, 'S')
		case 'N':
			out = append(out, 'N')
		case 'I':
			out = append(out, 'I', '<')
			out = append(out, t.Text...)
			out = append(out, '>')
		case 'Q':
			out = append(out, 'Q', '<')
			out = append(out, t.Text...)
			out = append(out, '>')
		default:
			out = append(out, t.Punct)
		}
	}
	return string(out)
}

// LikeDecode interprets a ClickHouse LIKE pattern: returns the literal text if the pattern has the form
// %<literal>% with every % _ \ inside escaped, ok=false otherwise.
func LikeContainsLiteral(p string) (lit string, ok bool) {
	n := len(p)
	if n < 2 || p[0] != '%' || p[n-1] != '%' {
		return "", false
	}
	var out []byte
	i := 1
	for i < n-1 {
		c := p[i]
		if c == '\\' {
			if i+1 >= n-1 {
				return "", false // the backslash escapes the closing %
			}
			out = append(out, p[i+1])
			i += 2
			continue
		}
		if c == '%' || c == '_' {
			return "", false
		}
		out = append(out, c)
		i++
	}
	return string(out), true
}
