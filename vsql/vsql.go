// Package vsql gives harnesses a *sql.Rows over scripted rows, so that the reader's response writers can
// be driven from "what ClickHouse returned". Natively the rows come from a minimal scripted database/sql
// driver; under the symbolic executor Rows() and the methods of the returned *sql.Rows (Next, Scan,
// Close, Err, Columns) are modelled by the engine: cell values may be symbolic.
package vsql

import (
	"context"
	"database/sql"
	"database/sql/driver"
	"io"

	"github.com/metrico/qryn/zzverif/vrt"
)

type conn struct {
	cols   []string
	data   [][]any
	failAt int // >= 0: fetching row number failAt fails (the connection broke mid-result)
}

type connector struct{ c *conn }

func (c connector) Connect(context.Context) (driver.Conn, error) { return c.c, nil }
func (c connector) Driver() driver.Driver                        { return drv{} }

type drv struct{}

func (drv) Open(string) (driver.Conn, error) { return nil, io.EOF }

func (c *conn) Prepare(string) (driver.Stmt, error) { return nil, io.EOF }
func (c *conn) Close() error                        { return nil }
func (c *conn) Begin() (driver.Tx, error)           { return nil, io.EOF }
func (c *conn) QueryContext(context.Context, string, []driver.NamedValue) (driver.Rows, error) {
	return &rows{c: c}, nil
}

// any Go value is passed through as the ClickHouse driver does (it returns uint64, maps, slices, ...)
func (c *conn) CheckNamedValue(*driver.NamedValue) error { return nil }

type rows struct {
	c   *conn
	pos int
}

func (r *rows) Columns() []string { return r.c.cols }
func (r *rows) Close() error      { return nil }
func (r *rows) Next(dest []driver.Value) error {
	if r.c.failAt >= 0 && r.pos == r.c.failAt {
		return io.ErrUnexpectedEOF
	}
	if r.pos >= len(r.c.data) {
		return io.EOF
	}
	for i := range dest {
		dest[i] = r.c.data[r.pos][i]
	}
	r.pos++
	return nil
}

// Rows returns a result set with the given columns and rows (each row one value per column).
func Rows(cols []string, data [][]any) *sql.Rows { return RowsFailingAt(cols, data, -1) }

// RowsFailingAt is Rows whose fetch of row number failAt (0-based; len(data) = after the last row) fails:
// Next returns false there and Err reports the failure. failAt < 0: never fails.
func RowsFailingAt(cols []string, data [][]any, failAt int) *sql.Rows {
	db := sql.OpenDB(connector{&conn{cols: cols, data: data, failAt: failAt}})
	rs, err := db.QueryContext(context.Background(), "scripted")
	if err != nil {
		panic(err)
	}
	vrt.Cleanup(func() { db.Close() })
	return rs
}
