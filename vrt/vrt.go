// Package vrt is the harness API of the /verif machinery (nondeterministic inputs, assumptions,
// assertions, reachability witnesses). Under the symbolic executor (gosym) every call is intercepted
// and the bodies below are NOT executed; natively the bodies replay a counterexample vector
// (file named by $VERIF_REPLAY) so that a solver model can be confirmed against the compiled code.
// It is injected as a virtual package by overlay and never exists in the repository.
package vrt

import (
	"encoding/json"
	"fmt"
	"math"
	"os"
	"runtime"
	"time"
)

type input struct {
	Label string `json:"label"`
	Kind  string `json:"kind"`
	Value uint64 `json:"value"`
}

type vector struct {
	Property string  `json:"property"`
	Harness  string  `json:"harness"`
	Expect   string  `json:"expect"`
	Inputs   []input `json:"inputs"`
	Thorough bool    `json:"thorough"`
}

var (
	vec        vector
	pos        int
	checkLeaks bool
	allowedExtra int
	loaded     bool
)

func finish(outcome string) {
	if outcome != "ok" {
		// if another goroutine is dying of an unrecovered panic, let the runtime report that first
		time.Sleep(50 * time.Millisecond)
	}
	fmt.Fprintf(os.Stdout, "\nVRT-OUTCOME: %s\n", outcome)
	os.Stdout.Sync()
	os.Exit(3)
}

func next(label, kind string) uint64 {
	if !loaded {
		panic("vrt: no replay vector loaded (VERIF_REPLAY)")
	}
	if pos >= len(vec.Inputs) {
		// inputs past the end of the vector were unconstrained in the model
		pos++
		return 0
	}
	in := vec.Inputs[pos]
	pos++
	if in.Label != label {
		finish(fmt.Sprintf("diverged: replay expects input %q(%s) but harness asked for %q(%s) at #%d", in.Label, in.Kind, label, kind, pos-1))
	}
	return in.Value
}

func Int64(label string) int64   { return int64(next(label, "int64")) }
func Int(label string) int       { return int(int64(next(label, "int"))) }
func Uint64(label string) uint64 { return next(label, "uint64") }
func Uint(label string) uint     { return uint(next(label, "uint")) }
func Int32(label string) int32   { return int32(next(label, "int32")) }
func Uint32(label string) uint32 { return uint32(next(label, "uint32")) }
func Int16(label string) int16   { return int16(next(label, "int16")) }
func Uint16(label string) uint16 { return uint16(next(label, "uint16")) }
func Int8(label string) int8     { return int8(next(label, "int8")) }
func Byte(label string) byte     { return byte(next(label, "byte")) }
func Bool(label string) bool     { return next(label, "bool") != 0 }
func Float64(label string) float64 {
	return math.Float64frombits(next(label, "float64"))
}

// Len returns a nondeterministic length in [lo,hi] (forked over under gosym).
func Len(label string, lo, hi int) int { return int(int64(next(label, "len"))) }

// Choice returns a nondeterministic value in [0,n).
func Choice(label string, n int) int {
	if n <= 1 {
		return 0
	}
	return int(next(label, "choice"))
}

func Bytes(label string, n int) []byte {
	b := make([]byte, n)
	for i := range b {
		b[i] = Byte(label)
	}
	return b
}

func String(label string, n int) string { return string(Bytes(label, n)) }

func Assume(c bool) {
	if !c {
		finish("assume-false")
	}
}

func Assert(c bool, label string) {
	if !c {
		finish("assert:" + label)
	}
}

func Reach(label string) {}
func Note(v any)          {}

// Unwind sets the bound on iterations of loops whose exit condition is symbolic.
func Unwind(n int)         {}
func ConcreteUnwind(n int) {}
func Steps(n int)          {}
func CheckLeaks()          { checkLeaks = true }

// ExpectBackgroundGoroutines tells the native leak check that the code under test legitimately leaves up to n
// process-wide helper goroutines running for a while (e.g. a cache-expiry sleeper started once per process);
// under the symbolic executor sleeps elapse at once, so such goroutines end and nothing needs to be excused.
func ExpectBackgroundGoroutines(n int) { allowedExtra += n }
func SchedSymbolic()       {}
func MapOrderMatters()     {}
func Yield()               { runtime.Gosched() }

// Symbolic reports whether the harness runs under the symbolic executor.
func Symbolic() bool { return false }

// IsConcrete reports whether x is fully concrete under the symbolic executor (always true natively).
func IsConcrete(x any) bool { return true }

// Thorough reports the tier of the run.
func Thorough() bool { return vec.Thorough }

// KnownFinding marks the input region of a recorded finding (see DESIGN §2.8). Natively false.
func KnownFinding(id string, region bool) bool { return false }

// Option switches on a named, documented simplification of the symbolic executor for this harness (a no-op
// natively). "opaque-logql-parser": logql_parser.Parse returns an empty script instead of running the
// participle grammar - only sound where the script is not looked at (a planner plugin replaces the chain).
func Option(name string) {}

var cleanups []func()

// Cleanup registers a function run natively after the harness and before the goroutine-leak check (helper
// packages use it to shut down their own native scaffolding, which the symbolic executor never runs).
func Cleanup(f func()) { cleanups = append(cleanups, f) }

// Run loads the replay vector and runs the selected harness (used by the generated replay test).
func Run(harnesses map[string]func()) {
	path := os.Getenv("VERIF_REPLAY")
	data, err := os.ReadFile(path)
	if err != nil {
		panic(err)
	}
	if err := json.Unmarshal(data, &vec); err != nil {
		panic(err)
	}
	loaded = true
	h, ok := harnesses[vec.Harness]
	if !ok {
		panic("vrt: unknown harness " + vec.Harness)
	}
	before := runtime.NumGoroutine()
	h()
	for _, f := range cleanups {
		f()
	}
	if checkLeaks {
		deadline := time.Now().Add(500 * time.Millisecond)
		for runtime.NumGoroutine() > before+allowedExtra && time.Now().Before(deadline) {
			time.Sleep(10 * time.Millisecond)
		}
		if n := runtime.NumGoroutine(); n > before+allowedExtra {
			finish(fmt.Sprintf("leak:%d goroutines still running", n-before))
		}
	}
	finish("ok")
}

// SymbolicTZ makes the process time zone (time.Local) a nondeterministic whole-hour offset in
// [-12,+14] and returns it in hours. Natively the replay runner sets $TZ accordingly before the
// process starts; the vector entry is consumed here.
func SymbolicTZ() int { return int(int64(next("TZ-offset-hours", "tz"))) }

// RepoFile returns the content of a file of the repository (path relative to the module root); used to
// give //go:embed variables their value under the symbolic executor, which does not see linker data.
func RepoFile(rel string) string {
	dir, _ := os.Getwd()
	for i := 0; i < 8; i++ {
		if _, err := os.Stat(dir + "/go.mod"); err == nil {
			break
		}
		dir = dir + "/.."
	}
	data, err := os.ReadFile(dir + "/" + rel)
	if err != nil {
		panic(err)
	}
	return string(data)
}

// All / Any combine conditions WITHOUT branching (Go's && and || compile to branches, which fork the
// symbolic executor); use them in oracles over symbolic values.
func All(conds ...bool) bool {
	r := true
	for _, c := range conds {
		r = r && c
	}
	return r
}

func Any(conds ...bool) bool {
	r := false
	for _, c := range conds {
		r = r || c
	}
	return r
}
func SymbolicClock() {}
