#!/bin/sh
# usage: tools/run_seeds.sh [tier] [id-substring]  - applies every seeded change to /repo in turn, runs the property's check,
# reverts, and prints whether the change was caught (VIOLATION), missed (OK) or broke the check.
tier=${1:-quick}; only=$2
cd "$(dirname "$0")/.."
git -C /repo diff --quiet || { echo "/repo has local changes, refusing"; exit 2; }
for d in seeded/*/; do
  id=$(basename $d)
  case "$id" in *"$only"*) ;; *) continue;; esac
  p=$(python3 -c "import json;print(json.load(open('$d/meta.json'))['breaks_property'])")
  if ! git -C /repo apply --check $PWD/$d/patch.diff 2>/dev/null; then echo "$id: PATCH-DOES-NOT-APPLY"; continue; fi
  git -C /repo apply $PWD/$d/patch.diff
  s=$(date +%s)
  out=$(timeout 3600 ./check $p $tier 2>&1); rc=$?
  git -C /repo checkout -- .
  v=$(echo "$out" | grep -c '^VIOLATION'); b=$(echo "$out" | grep -c '^BROKEN')
  h=$(echo "$out" | grep -A1 '^VIOLATION' | grep -o 'harness=[A-Za-z0-9_]*' | sort -u | tr '\n' ' ')
  if [ $v -gt 0 ]; then r=CAUGHT; elif [ $rc -ne 0 ]; then r=BROKEN-ONLY; else r=MISSED; fi
  echo "$id: $r rc=$rc violations=$v broken=$b t=$(( $(date +%s)-s ))s $h"
done
git -C /repo status --short | head -3
