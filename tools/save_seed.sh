save_seed () 
{ 
    id=$1;
    wt=$2;
    prop=$3;
    needs="$4";
    ran="$5";
    mkdir -p /verif/seeded/$id;
    cp $wt/patch.diff /verif/seeded/$id/patch.diff;
    cp $wt/NOTES.md /verif/seeded/$id/NOTES.md 2> /dev/null;
    for f in $(cd $wt && git status --short | grep "^??" | awk '{print $2}' | grep "_test.go");
    do
        cp $wt/$f /verif/seeded/$id/$(basename $f);
        echo "$f" > /verif/seeded/$id/demo_path.txt;
    done;
    python3 - "$id" "$prop" "$needs" "$ran" <<'EOF'
import json,sys
id,prop,needs,ran=sys.argv[1:5]
json.dump({"id":id,"breaks_property":prop,"needs_to_manifest":needs,"confirmed_by_me":ran,"demo":open(f"/verif/seeded/{id}/demo_path.txt").read().strip()},open(f"/verif/seeded/{id}/meta.json","w"),indent=1)
EOF

}
