#!/usr/bin/env python3
"""Regenerates /verif/MANIFEST.json from tools/manifest_src.json (claims + N/A reasons)."""
import json, os, sys
here = os.path.dirname(os.path.abspath(__file__))
root = os.path.dirname(here)
src = json.load(open(os.path.join(here, "manifest_src.json")))
props = [json.loads(l)["id"] for l in open(os.path.join(root, "properties.jsonl"))]
checks, na = [], []
for pid in props:
    c = src["claims"].get(pid)
    if c and os.path.isdir(os.path.join(root, "harness", pid)):
        checks.append({
            "property_id": pid,
            "quick_cmd": f"./check {pid} quick",
            "thorough_cmd": f"./check {pid} thorough",
            "evidence_file": f"/verif/evidence/{pid}.json",
            "replay_cmd_template": f"./check {pid} --replay {{path}}",
            "engine": "gosym",
            "level_claimed": {"category": "model_checking", "text": c["text"], "design_ref": c.get("design_ref", "DESIGN.md §3 " + pid)},
            "level_note": c["note"],
            "technique": c.get("technique", "bounded symbolic execution of the real Go code (go/ssa -> SMT-LIB2 QF_BV/FP/UF, z3/cvc5); counterexamples replayed natively"),
        })
    else:
        na.append({"property_id": pid, "reason": src["not_applicable"].get(pid, "no check built yet with the solver-based technique; see DESIGN.md")})
m = {
    "version": 1,
    "setup_cmd": "cd /verif/gosym && GOFLAGS=-mod=mod GOPROXY=off go build -o ../bin/gosym . && cd /verif && ./bin/gosym selfcheck",
    "hooks": {
        "guard": "verif",
        "enable": "no source hooks: harnesses and the vrt package are injected by go/packages Overlay (analysis) and `go test -tags verif -overlay` (native replay); nothing is added to /repo",
        "baseline_off_cmd": "for m in $(cat /w/out/gomods.txt); do MF=$(cd /repo/$m && . /w/out/goenv.sh && gomodflag); (cd /repo/$m && go test $MF -json -vet=off -count=1 -timeout 25m ./...); done",
        "source_commits": [],
        "add_only": True,
    },
    "engines": [{"name": "gosym", "path": "/verif/gosym", "serves_properties": [c["property_id"] for c in checks],
                 "kind_free_text": "path-exhaustive bounded symbolic executor over go/ssa (x/tools v0.29.0) written for this task; forks by re-execution under a decision prefix; z3 4.8.12 / cvc5 1.0 over stdin with push/pop; native replay of every model via go test -overlay"}],
    "checks": checks,
    "not_applicable": na,
    "notes": src.get("notes", ""),
}
json.dump(m, open(os.path.join(root, "MANIFEST.json"), "w"), indent=1)
print("checks:", [c["property_id"] for c in checks], "n/a:", [n["property_id"] for n in na])
