#!/bin/sh
# usage: tools/try_seed_scratch.sh <worktree> <Cxx> - like try_seed.sh, but points the check at the scratch worktree
# (VERIF_REPO) instead of applying the change to /repo; evidence goes to a scratch directory.
wt=$1; p=$2
export GOFLAGS=-mod=mod GOPROXY=off
cd $wt || exit 2
pkg=$(git status --short | grep "_test.go" | awk '{print $2}' | head -1 | xargs dirname)
echo "== demo package: $pkg"
echo -n "with change:    "; go test -vet=off -count=1 ./$pkg/ 2>&1 | tail -1
git apply -R patch.diff
echo -n "without change: "; go test -vet=off -count=1 ./$pkg/ 2>&1 | tail -1
git apply patch.diff
cd /verif
VERIF_REPO=$wt timeout 1800 ./check $p quick 2>&1 | grep "VIOLATION\|^OK\|BROKEN\|KNOWN" | head -4 | cut -c1-260
