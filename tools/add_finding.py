#!/usr/bin/env python3
# usage: tools/add_finding.py <id> <property> <harness> fixed|known <commit|-> "<what>"
import json, sys
p = '/verif/known_findings.json'
d = json.load(open(p))
i, prop, h, st, c, what = sys.argv[1:7]
e = {"id": i, "property": prop, "harness": h, "status": st}
if st == "fixed":
    e["commit"] = c
    what = "fixed: property=%s %s %s" % (prop, c, what)
e["what"] = what
d["findings"] = [f for f in d["findings"] if f["id"] != i] + [e]
json.dump(d, open(p, "w"), indent=1)
