#!/bin/sh
# usage: tools/run_all.sh quick|thorough  -> runs every registered check, prints one line each
tier=${1:-quick}
cd "$(dirname "$0")/.."
for p in $(python3 -c "import json;print(' '.join(c['property_id'] for c in json.load(open('MANIFEST.json'))['checks']))"); do
  s=$(date +%s)
  out=$(timeout 7200 ./check $p $tier 2>&1)
  rc=$?
  e=$(date +%s)
  echo "$p rc=$rc t=$((e-s))s $(echo "$out" | grep -c '^VIOLATION') violations $(echo "$out" | grep -c '^BROKEN') broken $(echo "$out" | grep -c '^KNOWN-FINDING') known"
  echo "$out" | grep '^BROKEN\|^VIOLATION' | head -3
done
