#!/bin/sh
# usage: tools/try_seed.sh <worktree> <Cxx>  - confirm the demo (fails with / passes without), then run the check
wt=$1; p=$2
export GOFLAGS=-mod=mod GOPROXY=off
cd $wt || exit 2
pkg=$(git status --short | grep "_test.go" | awk '{print $2}' | head -1 | xargs dirname)
echo "== demo package: $pkg"
echo -n "with change:    "; go test -vet=off -count=1 ./$pkg/ 2>&1 | tail -1
git apply -R patch.diff
echo -n "without change: "; go test -vet=off -count=1 ./$pkg/ 2>&1 | tail -1
git apply patch.diff
cd /verif
git -C /repo apply $wt/patch.diff || { echo "PATCH DOES NOT APPLY"; exit 3; }
timeout 1800 ./check $p quick 2>&1 | grep "VIOLATION\|^OK\|BROKEN\|KNOWN" | head -4 | cut -c1-260
git -C /repo checkout -- .
git -C /repo status --short | head -2
