package main

import (
	"regexp"
	"fmt"
	"time"
)

// selfcheck: sanity of the solver drivers and of the term layer (constant folding vs. solver).
// the symbolic regexp matcher on constant bytes must agree with package regexp
func selfcheckRegexp() int {
	bad := 0
	pats := []string{"x.*", "^a", "b$", "^ab?c+$", "(?i)err", "a|bc", "\\d+", "[^a-c]x", "\\bfoo\\b", "(a*)*b", "", "^$", "x.+", "(?m)^l2$", "a{2,3}"}
	strs := []string{"", "x", "ax", "xyz", "abc", "ac", "abcc", "ERR", "eRr!", "bc", "12", "a1", "dx", "ax", "foo", "a foo b", "foob", "aab", "b", "l1\nl2", "aa", "aaaa", "xx"}
	for _, p := range pats {
		re, err := regexp.Compile(p)
		if err != nil {
			fmt.Printf("selfcheck: pattern %q: %v\n", p, err)
			bad++
			continue
		}
		for _, s := range strs {
			bs := make([]*Term, len(s))
			for i := range bs {
				bs[i] = BV(8, uint64(s[i]))
			}
			t, ok := symRegexpMatch(re, bs)
			if !ok || !t.IsConst() || (t.C == 1) != re.MatchString(s) {
				fmt.Printf("selfcheck: symbolic regexp matcher disagrees with package regexp on %q ~ %q\n", s, p)
				bad++
			}
		}
	}
	return bad
}

func cmdSelfcheck() int {
	bad := selfcheckRegexp()
	for _, kind := range []string{"z3", "cvc5", "cvc5-int"} {
		s, err := NewSolver(kind, 20*time.Second)
		if err != nil {
			fmt.Printf("selfcheck: cannot start %s: %v\n", kind, err)
			bad++
			continue
		}
		p := NewPath(WorkItem{}, s)
		x := p.NewInput("x", "uint64", SBV(64)).T
		y := p.NewInput("y", "uint64", SBV(64)).T
		// commutativity of the label hash combiner step must be unsat when negated
		a := BVBin(OpBVMul, BVBin(OpBVAdd, BV(64, 1779033703), BVBin(OpBVMul, BV(64, 2), x)), BVBin(OpBVAdd, BV(64, 1779033703), BVBin(OpBVMul, BV(64, 2), y)))
		b := BVBin(OpBVMul, BVBin(OpBVAdd, BV(64, 1779033703), BVBin(OpBVMul, BV(64, 2), y)), BVBin(OpBVAdd, BV(64, 1779033703), BVBin(OpBVMul, BV(64, 2), x)))
		if r := p.check(Not(Eq(a, b))); r != "unsat" {
			fmt.Printf("selfcheck: %s: commutativity query gave %s\n", kind, r)
			bad++
		}
		// folding agrees with solver on signed division / remainder / shifts for sample constants
		for _, c := range [][2]uint64{{7, 2}, {^uint64(6), 2}, {1 << 63, ^uint64(0)}, {100, 7}, {^uint64(99), 7}} {
			for _, op := range []Op{OpBVSDiv, OpBVSRem, OpBVUDiv, OpBVURem, OpBVAshr, OpBVLshr, OpBVShl} {
				folded := BVBin(op, BV(64, c[0]), BV(64, c[1]))
				sym := mk(op, SBV(64), x, y)
				q := AndAll([]*Term{Eq(x, BV(64, c[0])), Eq(y, BV(64, c[1])), Not(Eq(sym, folded))})
				if r := p.check(q); r != "unsat" {
					fmt.Printf("selfcheck: %s: folding of op %d on %v disagrees with solver (%s)\n", kind, op, c, r)
					bad++
				}
			}
		}
		// model extraction
		p.assert(Eq(BVBin(OpBVAdd, x, BV(64, 5)), BV(64, 12)))
		m, r := p.Model()
		if r != "sat" || m["x#0"] != 7 {
			fmt.Printf("selfcheck: %s: model extraction failed: %s %v\n", kind, r, m)
			bad++
		}
		s.Close()
	}
	if bad > 0 {
		return 2
	}
	fmt.Println("selfcheck ok")
	return 0
}
