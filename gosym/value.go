package main

// Value representation (after x/tools/go/ssa/interp, with symbolic scalars):
//   *Term            ints, bools, floats (constant or symbolic)
//   Str              strings (concrete or per-byte symbolic, concrete length)
//   []Value          slices
//   Array, Struct    aggregates (copied on load/store)
//   *Value           pointers
//   Iface            interfaces
//   *Map             maps (insertion-ordered association list)
//   *Chan            channels
//   *ssa.Function, *ssa.Builtin, *Closure   funcs
//   Tuple            multi-value
//   *Native          opaque native Go object (regexp, etc.)
//   UPtr             unsafe.Pointer wrapper

import (
	"fmt"
	"go/types"
	"strings"

	"golang.org/x/tools/go/ssa"
)

type Value = any

type Tuple []Value
type Array []Value
type Struct []Value

type Iface struct {
	T types.Type
	V Value
}

type Closure struct {
	Fn  *ssa.Function
	Env []Value
}

type Native struct {
	V any
}

// UPtr is an unsafe.Pointer: either a pointer to a cell (P) or to a slice element (S, index 0).
type UPtr struct {
	P *Value
	S []Value
	T types.Type // pointee type when known
}

// Str is an immutable string. If B != nil its bytes are B (possibly symbolic); else S.
type Str struct {
	S string
	B []*Term
	A []Value // non-nil: the string ALIASES these byte cells (unsafe.String): read at use time
}

// snap returns a snapshot of an aliasing string.
func (s Str) snap() Str {
	if s.A == nil {
		return s
	}
	ts := make([]*Term, len(s.A))
	for i, v := range s.A {
		ts[i] = v.(*Term)
	}
	if len(ts) == 0 {
		return Str{}
	}
	return StrFromTerms(ts)
}

func CStr(s string) Str { return Str{S: s} }

func (s Str) Len() int {
	if s.A != nil {
		return len(s.A)
	}
	if s.B != nil {
		return len(s.B)
	}
	return len(s.S)
}

func (s Str) At(i int) *Term {
	if s.A != nil {
		return s.A[i].(*Term)
	}
	if s.B != nil {
		return s.B[i]
	}
	return BV(8, uint64(s.S[i]))
}

// Concrete returns the Go string if all bytes are constants.
func (s Str) Concrete() (string, bool) {
	if s.A != nil {
		return s.snap().Concrete()
	}
	if s.B == nil {
		return s.S, true
	}
	bs := make([]byte, len(s.B))
	for i, b := range s.B {
		if !b.IsConst() {
			return "", false
		}
		bs[i] = byte(b.C)
	}
	return string(bs), true
}

func (s Str) Bytes() []*Term {
	if s.A != nil {
		return s.snap().Bytes()
	}
	if s.B != nil {
		return s.B
	}
	r := make([]*Term, len(s.S))
	for i := 0; i < len(s.S); i++ {
		r[i] = BV(8, uint64(s.S[i]))
	}
	return r
}

func StrFromTerms(b []*Term) Str {
	all := true
	for _, t := range b {
		if !t.IsConst() {
			all = false
			break
		}
	}
	if all {
		bs := make([]byte, len(b))
		for i, t := range b {
			bs[i] = byte(t.C)
		}
		return Str{S: string(bs)}
	}
	if b == nil {
		return Str{}
	}
	return Str{B: b}
}

func (s Str) Slice(lo, hi int) Str {
	if s.A != nil {
		if lo == hi {
			return Str{}
		}
		return Str{A: s.A[lo:hi:hi]}
	}
	if s.B != nil {
		return StrFromTerms(append([]*Term(nil), s.B[lo:hi]...))
	}
	return Str{S: s.S[lo:hi]}
}

func StrConcat(a, b Str) Str {
	a, b = a.snap(), b.snap()
	if a.B == nil && b.B == nil {
		return Str{S: a.S + b.S}
	}
	if a.Len() == 0 {
		return b
	}
	if b.Len() == 0 {
		return a
	}
	r := make([]*Term, 0, a.Len()+b.Len())
	r = append(r, a.Bytes()...)
	r = append(r, b.Bytes()...)
	return Str{B: r}
}

func StrEq(a, b Str) *Term {
	a, b = a.snap(), b.snap()
	if a.Len() != b.Len() {
		return TFalse
	}
	if a.B == nil && b.B == nil {
		return BoolT(a.S == b.S)
	}
	r := TTrue
	for i := 0; i < a.Len(); i++ {
		r = And(r, Eq(a.At(i), b.At(i)))
		if r == TFalse {
			return r
		}
	}
	return r
}

// StrLess returns the term a < b (bytewise lexicographic).
func StrLess(a, b Str) *Term {
	a, b = a.snap(), b.snap()
	if a.B == nil && b.B == nil {
		return BoolT(a.S < b.S)
	}
	n := a.Len()
	if b.Len() < n {
		n = b.Len()
	}
	// from the end: res = (len(a) < len(b))
	res := BoolT(a.Len() < b.Len())
	for i := n - 1; i >= 0; i-- {
		x, y := a.At(i), b.At(i)
		res = Ite(Eq(x, y), res, BVCmp(OpBVUlt, x, y))
	}
	return res
}

func (s Str) String() string {
	s = s.snap()
	if c, ok := s.Concrete(); ok {
		return fmt.Sprintf("%q", c)
	}
	var sb strings.Builder
	sb.WriteString("sym\"")
	for _, b := range s.B {
		if b.IsConst() {
			sb.WriteByte(byte(b.C))
		} else {
			sb.WriteString("?")
		}
	}
	sb.WriteString("\"")
	return sb.String()
}

// ---- maps ----

type mapEntry struct {
	k, v Value
}

type Map struct {
	kt      types.Type
	entries []*mapEntry       // insertion order; deleted entries removed
	idx     map[string]*mapEntry // fast path for fully concrete keys
	symKeys int               // number of entries with non-concrete keys
}

func NewMap(kt types.Type) *Map { return &Map{kt: kt, idx: map[string]*mapEntry{}} }

// concreteKey renders a hashable value to a string if it is fully concrete.
func concreteKey(v Value) (string, bool) {
	switch v := v.(type) {
	case *Term:
		if v.IsConst() {
			return fmt.Sprintf("t%d:%d:%x", v.Sort.K, v.Sort.W, v.C), true
		}
		return "", false
	case Str:
		if s, ok := v.Concrete(); ok {
			return "s" + s, true
		}
		return "", false
	case *Value:
		return fmt.Sprintf("p%p", v), true
	case *Chan:
		return fmt.Sprintf("c%p", v), true
	case Iface:
		if v.T == nil {
			return "inil", true
		}
		k, ok := concreteKey(v.V)
		return "i" + v.T.String() + "/" + k, ok
	case Struct:
		var sb strings.Builder
		sb.WriteString("S{")
		for _, f := range v {
			k, ok := concreteKey(f)
			if !ok {
				return "", false
			}
			fmt.Fprintf(&sb, "%d:%s,", len(k), k)
		}
		return sb.String(), true
	case Array:
		var sb strings.Builder
		sb.WriteString("A{")
		for _, f := range v {
			k, ok := concreteKey(f)
			if !ok {
				return "", false
			}
			fmt.Fprintf(&sb, "%d:%s,", len(k), k)
		}
		return sb.String(), true
	case *Native:
		return fmt.Sprintf("n%p", v), true
	case *ssa.Function:
		return fmt.Sprintf("f%p", v), true
	case *Closure:
		return fmt.Sprintf("f%p", v), true
	case UPtr:
		return fmt.Sprintf("u%p", v.P), true
	}
	return "", false
}

// ---- channels ----

type sendItem struct {
	v     Value
	taken bool
}

type Chan struct {
	id     int
	cap    int
	buf    []Value
	sendq  []*sendItem
	closed bool
	recvWaiters int
}

// ---- zero values ----

func intWidth(k types.BasicKind) (w int, signed bool, ok bool) {
	switch k {
	case types.Int, types.Int64, types.UntypedInt:
		return 64, true, true
	case types.Int8:
		return 8, true, true
	case types.Int16:
		return 16, true, true
	case types.Int32, types.UntypedRune:
		return 32, true, true
	case types.Uint, types.Uint64, types.Uintptr:
		return 64, false, true
	case types.Uint8:
		return 8, false, true
	case types.Uint16:
		return 16, false, true
	case types.Uint32:
		return 32, false, true
	}
	return 0, false, false
}

func zero(t types.Type) Value {
	switch t := t.(type) {
	case *types.Basic:
		if t.Info()&types.IsUntyped != 0 && t.Kind() != types.UntypedNil {
			t = types.Default(t).(*types.Basic)
		}
		if w, _, ok := intWidth(t.Kind()); ok {
			return BV(w, 0)
		}
		switch t.Kind() {
		case types.Bool:
			return TFalse
		case types.Float32:
			return FPConst(32, 0)
		case types.Float64, types.UntypedFloat:
			return FPConst(64, 0)
		case types.String:
			return Str{}
		case types.UnsafePointer:
			return UPtr{}
		case types.Complex128, types.Complex64:
			return Tuple{FPConst(64, 0), FPConst(64, 0)}
		case types.UntypedNil:
			return nil
		}
		panic(fmt.Sprint("zero for unexpected type:", t))
	case *types.Pointer:
		return (*Value)(nil)
	case *types.Array:
		a := make(Array, t.Len())
		for i := range a {
			a[i] = zero(t.Elem())
		}
		return a
	case *types.Named:
		return zero(t.Underlying())
	case *types.Alias:
		return zero(types.Unalias(t))
	case *types.Interface:
		return Iface{}
	case *types.Slice:
		return []Value(nil)
	case *types.Struct:
		s := make(Struct, t.NumFields())
		for i := range s {
			s[i] = zero(t.Field(i).Type())
		}
		return s
	case *types.Tuple:
		if t.Len() == 1 {
			return zero(t.At(0).Type())
		}
		s := make(Tuple, t.Len())
		for i := range s {
			s[i] = zero(t.At(i).Type())
		}
		return s
	case *types.Chan:
		return (*Chan)(nil)
	case *types.Map:
		return (*Map)(nil)
	case *types.Signature:
		return (*ssa.Function)(nil)
	case *types.TypeParam:
		panic("zero of type parameter " + t.String())
	}
	panic(fmt.Sprint("zero: unexpected ", t))
}

// load returns a private copy of the value of type T stored at addr.
func load(T types.Type, addr *Value) Value {
	switch T := T.Underlying().(type) {
	case *types.Struct:
		v := (*addr).(Struct)
		a := make(Struct, len(v))
		for i := range a {
			a[i] = load(T.Field(i).Type(), &v[i])
		}
		return a
	case *types.Array:
		v := (*addr).(Array)
		a := make(Array, len(v))
		et := T.Elem()
		if isScalarType(et) {
			copy(a, v)
			return a
		}
		for i := range a {
			a[i] = load(et, &v[i])
		}
		return a
	default:
		return *addr
	}
}

func isScalarType(t types.Type) bool {
	switch t.Underlying().(type) {
	case *types.Struct, *types.Array:
		return false
	}
	return true
}

func store(T types.Type, addr *Value, v Value) {
	switch T := T.Underlying().(type) {
	case *types.Struct:
		lhs, ok := (*addr).(Struct)
		rhs := v.(Struct)
		if !ok || len(lhs) != len(rhs) {
			lhs = make(Struct, len(rhs))
			*addr = lhs
		}
		for i := range lhs {
			store(T.Field(i).Type(), &lhs[i], rhs[i])
		}
	case *types.Array:
		lhs, ok := (*addr).(Array)
		rhs := v.(Array)
		if !ok || len(lhs) != len(rhs) {
			lhs = make(Array, len(rhs))
			*addr = lhs
		}
		et := T.Elem()
		if isScalarType(et) {
			copy(lhs, rhs)
			return
		}
		for i := range lhs {
			store(et, &lhs[i], rhs[i])
		}
	default:
		*addr = v
	}
}

// copyVal deep-copies aggregates by dynamic shape (for channel sends, map values, etc.).
func copyVal(v Value) Value {
	switch v := v.(type) {
	case Struct:
		a := make(Struct, len(v))
		for i := range v {
			a[i] = copyVal(v[i])
		}
		return a
	case Array:
		a := make(Array, len(v))
		for i := range v {
			a[i] = copyVal(v[i])
		}
		return a
	}
	return v
}

func showValue(v Value) string {
	switch v := v.(type) {
	case nil:
		return "nil"
	case *Term:
		if v.IsConst() {
			switch v.Sort.K {
			case KBool:
				return fmt.Sprint(v.C == 1)
			case KFP:
				return fmt.Sprint(v.Float())
			}
			return fmt.Sprint(v.C)
		}
		return "<sym>"
	case Str:
		return v.String()
	case Iface:
		if v.T == nil {
			return "nil"
		}
		return fmt.Sprintf("(%s)%s", v.T, showValue(v.V))
	case Struct:
		var ss []string
		for _, f := range v {
			ss = append(ss, showValue(f))
		}
		return "{" + strings.Join(ss, " ") + "}"
	case Array:
		var ss []string
		for _, f := range v {
			ss = append(ss, showValue(f))
		}
		return "[" + strings.Join(ss, " ") + "]"
	case []Value:
		if len(v) > 16 {
			return fmt.Sprintf("[...%d]", len(v))
		}
		var ss []string
		for _, f := range v {
			ss = append(ss, showValue(f))
		}
		return "[" + strings.Join(ss, " ") + "]"
	case *Value:
		if v == nil {
			return "nil"
		}
		return "&" + showValue(*v)
	case Tuple:
		var ss []string
		for _, f := range v {
			ss = append(ss, showValue(f))
		}
		return "(" + strings.Join(ss, ", ") + ")"
	}
	return fmt.Sprintf("<%T>", v)
}
