package main

import (
	"regexp"
	"regexp/syntax"
)

// Symbolic regexp matching: (*Regexp).MatchString / Match on a string with symbolic bytes (concrete length,
// concrete pattern). The pattern is compiled with regexp/syntax exactly as package regexp does and the
// resulting program is simulated as a non-deterministic automaton over the symbolic bytes; the result is one
// Boolean term (no forking): "some thread reaches the match instruction". Bytes are required to be ASCII
// (a symbolic byte >= 0x80 would be part of a multi-byte rune) - the caller forks on that and gives up
// outside it. Native regexp on concrete text validates the construction in selfcheck.

func isWordTerm(b *Term) *Term {
	in := func(lo, hi byte) *Term {
		return And(BVCmp(OpBVUle, BV(8, uint64(lo)), b), BVCmp(OpBVUle, b, BV(8, uint64(hi))))
	}
	return Or(Or(in('a', 'z'), in('A', 'Z')), Or(in('0', '9'), Eq(b, BV(8, '_'))))
}

func runeClassTerm(inst *syntax.Inst, b *Term) *Term {
	switch inst.Op {
	case syntax.InstRuneAny:
		return TTrue
	case syntax.InstRuneAnyNotNL:
		return Not(Eq(b, BV(8, '\n')))
	}
	rs := inst.Rune
	if len(rs) == 1 {
		r := rs[0]
		if r >= 0x80 {
			return TFalse
		}
		c := Eq(b, BV(8, uint64(r)))
		if syntax.Flags(inst.Arg)&syntax.FoldCase != 0 {
			if r >= 'a' && r <= 'z' {
				c = Or(c, Eq(b, BV(8, uint64(r-32))))
			} else if r >= 'A' && r <= 'Z' {
				c = Or(c, Eq(b, BV(8, uint64(r+32))))
			}
		}
		return c
	}
	c := TFalse
	for i := 0; i+1 < len(rs); i += 2 {
		lo, hi := rs[i], rs[i+1]
		if lo >= 0x80 {
			continue
		}
		if hi >= 0x80 {
			hi = 0x7f
		}
		c = Or(c, And(BVCmp(OpBVUle, BV(8, uint64(lo)), b), BVCmp(OpBVUle, b, BV(8, uint64(hi)))))
	}
	return c
}

func symRegexpMatch(re *regexp.Regexp, bs []*Term) (*Term, bool) {
	parsed, err := syntax.Parse(re.String(), syntax.Perl)
	if err != nil {
		return nil, false
	}
	prog, err := syntax.Compile(parsed.Simplify())
	if err != nil {
		return nil, false
	}
	n := len(bs)
	matched := TFalse
	emptyCond := func(flag syntax.EmptyOp, pos int) *Term {
		c := TTrue
		if flag&syntax.EmptyBeginText != 0 && pos != 0 {
			return TFalse
		}
		if flag&syntax.EmptyEndText != 0 && pos != n {
			return TFalse
		}
		if flag&syntax.EmptyBeginLine != 0 && pos != 0 {
			c = And(c, Eq(bs[pos-1], BV(8, '\n')))
		}
		if flag&syntax.EmptyEndLine != 0 && pos != n {
			c = And(c, Eq(bs[pos], BV(8, '\n')))
		}
		if flag&(syntax.EmptyWordBoundary|syntax.EmptyNoWordBoundary) != 0 {
			before, after := TFalse, TFalse
			if pos > 0 {
				before = isWordTerm(bs[pos-1])
			}
			if pos < n {
				after = isWordTerm(bs[pos])
			}
			boundary := Not(Eq(before, after))
			if flag&syntax.EmptyWordBoundary != 0 {
				c = And(c, boundary)
			}
			if flag&syntax.EmptyNoWordBoundary != 0 {
				c = And(c, Not(boundary))
			}
		}
		return c
	}
	budget := 200000
	var add func(active map[uint32]*Term, onPath map[uint32]bool, pc uint32, cond *Term, pos int) bool
	add = func(active map[uint32]*Term, onPath map[uint32]bool, pc uint32, cond *Term, pos int) bool {
		budget--
		if budget < 0 {
			return false
		}
		if cond.IsConst() && cond.C == 0 || onPath[pc] {
			return true
		}
		inst := &prog.Inst[pc]
		onPath[pc] = true
		defer delete(onPath, pc)
		switch inst.Op {
		case syntax.InstFail:
		case syntax.InstMatch:
			matched = Or(matched, cond)
		case syntax.InstAlt, syntax.InstAltMatch:
			return add(active, onPath, inst.Out, cond, pos) && add(active, onPath, inst.Arg, cond, pos)
		case syntax.InstNop, syntax.InstCapture:
			return add(active, onPath, inst.Out, cond, pos)
		case syntax.InstEmptyWidth:
			return add(active, onPath, inst.Out, And(cond, emptyCond(syntax.EmptyOp(inst.Arg), pos)), pos)
		default: // rune instructions wait for the next byte
			if old, ok := active[pc]; ok {
				active[pc] = Or(old, cond)
			} else {
				active[pc] = cond
			}
		}
		return true
	}
	active := map[uint32]*Term{}
	for pos := 0; pos <= n; pos++ {
		// unanchored search: a new thread starts at every position
		if !add(active, map[uint32]bool{}, uint32(prog.Start), TTrue, pos) {
			return nil, false
		}
		if pos == n {
			break
		}
		next := map[uint32]*Term{}
		// deterministic order of construction is irrelevant for the meaning of the term
		for pc, cond := range active {
			inst := &prog.Inst[pc]
			c := And(cond, runeClassTerm(inst, bs[pos]))
			if !add(next, map[uint32]bool{}, inst.Out, c, pos+1) {
				return nil, false
			}
		}
		active = next
	}
	return matched, true
}

// symMatch is the entry used by the MatchString/Match intrinsics.
func (m *Machine) symMatch(re *regexp.Regexp, s Str, what string) Value {
	if cs, ok := s.Concrete(); ok {
		return BoolT(re.MatchString(cs))
	}
	bs := s.Bytes()
	for _, b := range bs {
		if !b.IsConst() && !m.decide(BVCmp(OpBVUlt, b, BV(8, 0x80))) {
			m.unsupported("%s with a symbolic non-ASCII byte", what)
		}
		if b.IsConst() && b.C >= 0x80 {
			m.unsupported("%s with symbolic bytes next to non-ASCII text", what)
		}
	}
	t, ok := symRegexpMatch(re, bs)
	if !ok {
		m.unsupported("%s: pattern too large for the symbolic matcher", what)
	}
	m.stubs["model:regexp match on symbolic ASCII bytes = automaton of regexp/syntax's compiled program as one Boolean term"]++
	return t
}

// symReplaceClass: ReplaceAllString for a pattern whose compiled program is a single rune instruction followed
// by match (one character class / one literal), replacement = one plain byte, subject = symbolic ASCII bytes.
func (m *Machine) symReplaceClass(re *regexp.Regexp, s Str, repl byte) (Str, bool) {
	parsed, err := syntax.Parse(re.String(), syntax.Perl)
	if err != nil {
		return Str{}, false
	}
	prog, err := syntax.Compile(parsed.Simplify())
	if err != nil {
		return Str{}, false
	}
	var runeInst *syntax.Inst
	n := 0
	for i := range prog.Inst {
		switch prog.Inst[i].Op {
		case syntax.InstRune, syntax.InstRune1, syntax.InstRuneAny, syntax.InstRuneAnyNotNL:
			runeInst = &prog.Inst[i]
			n++
		case syntax.InstMatch, syntax.InstFail, syntax.InstNop, syntax.InstCapture:
		default:
			return Str{}, false
		}
	}
	if n != 1 {
		return Str{}, false
	}
	bs := s.Bytes()
	out := make([]*Term, len(bs))
	for i, b := range bs {
		if !b.IsConst() && !m.decide(BVCmp(OpBVUlt, b, BV(8, 0x80))) {
			m.unsupported("Regexp.ReplaceAllString with a symbolic non-ASCII byte")
		}
		if b.IsConst() && b.C >= 0x80 {
			return Str{}, false
		}
		out[i] = Ite(runeClassTerm(runeInst, b), BV(8, uint64(repl)), b)
	}
	m.stubs["model:regexp ReplaceAllString of a one-class pattern by one byte = byte-wise ite"]++
	if len(out) == 0 {
		return Str{}, true
	}
	return StrFromTerms(out), true
}
