package main

import (
	"bufio"
	"fmt"
	"io"
	"os"
	"os/exec"
	"strconv"
	"strings"
	"sync/atomic"
	"time"
)

// Solver is one long-lived SMT solver process driven over stdin/stdout.
type Solver struct {
	kind    string // z3 | z3-new | cvc5 | cvc5-int
	cmd     *exec.Cmd
	in      io.WriteCloser
	out     *bufio.Reader
	timeout time.Duration
	log     io.Writer
	dead    bool
	alt     *Solver // portfolio partner: receives every command, raced on every check-sat
	answer  *Solver // which process produced the last sat answer (for get-value)
	script  strings.Builder // commands since the last reset (replayed into a fresh process after a kill)
	restart bool
	retried bool
}

type SolverStats struct {
	Queries  int64
	Sat      int64
	Unsat    int64
	Unknown  int64
	NanosZ3  int64
	NanosCVC int64
	Fallbacks int64
}

var gStats SolverStats

func solverArgv(kind string, timeoutMs int) []string {
	switch kind {
	case "z3":
		return []string{"z3", "-in", fmt.Sprintf("-t:%d", timeoutMs)}
	case "z3-new":
		return []string{"z3-new", "-in", fmt.Sprintf("-t:%d", timeoutMs)}
	case "cvc5":
		return []string{"cvc5", "--incremental", "--produce-models", "--lang=smt2", fmt.Sprintf("--tlimit-per=%d", timeoutMs)}
	case "cvc5-int":
		return []string{"cvc5", "--incremental", "--produce-models", "--lang=smt2", "--solve-bv-as-int=sum", fmt.Sprintf("--tlimit-per=%d", timeoutMs)}
	}
	panic("unknown solver " + kind)
}

// NewSolver starts a solver; kind "portfolio" = z3 5.1 (bit-vectors, short limit) backed by cvc5 with
// int-blasting (full limit) for the arithmetic kernels where one of the two stalls.
func NewSolver(kind string, timeout time.Duration) (*Solver, error) {
	if kind == "portfolio" {
		p, err := NewSolver("z3-new", timeout)
		if err != nil {
			return nil, err
		}
		a, err := NewSolver("cvc5-int", timeout)
		if err != nil {
			return nil, err
		}
		p.alt = a
		return p, nil
	}
	argv := solverArgv(kind, int(timeout/time.Millisecond))
	cmd := exec.Command(argv[0], argv[1:]...)
	in, err := cmd.StdinPipe()
	if err != nil {
		return nil, err
	}
	outp, err := cmd.StdoutPipe()
	if err != nil {
		return nil, err
	}
	cmd.Stderr = cmd.Stdout
	if err := cmd.Start(); err != nil {
		return nil, err
	}
	s := &Solver{kind: kind, cmd: cmd, in: in, out: bufio.NewReaderSize(outp, 1<<16), timeout: timeout}
	if d := os.Getenv("GOSYM_SMTLOG"); d != "" {
		f, _ := os.Create(fmt.Sprintf("%s/solver-%d.smt2", d, cmd.Process.Pid))
		s.log = f
	}
	s.prelude()
	return s, nil
}

func (s *Solver) prelude() {
	if strings.HasPrefix(s.kind, "cvc5") {
		s.Send("(set-logic ALL)\n")
	} else {
		s.Send("(set-option :produce-models true)\n")
	}
}

func (s *Solver) Send(text string) {
	if s.alt != nil {
		s.alt.Send(text)
	}
	if !strings.HasPrefix(text, "(check-sat)") && !strings.HasPrefix(text, "(get-value") {
		if strings.HasPrefix(text, "(reset)") {
			s.script.Reset()
		}
		s.script.WriteString(text)
	}
	if s.restart {
		s.respawn()
		if !strings.HasPrefix(text, "(check-sat)") && !strings.HasPrefix(text, "(get-value") {
			return // the replayed transcript already contains this command
		}
	}
	if s.dead {
		return
	}
	if s.log != nil {
		io.WriteString(s.log, text)
	}
	if _, err := io.WriteString(s.in, text); err != nil {
		s.dead = true
	}
}

// Reset clears all assertions and declarations.
func (s *Solver) Reset() {
	if s.restart {
		s.script.Reset()
		s.respawn()
	}
	if s.alt != nil {
		s.alt.Reset()
		alt := s.alt
		s.alt = nil
		s.Send("(reset)\n")
		s.prelude()
		s.alt = alt
		return
	}
	s.Send("(reset)\n")
	s.prelude()
}

func (s *Solver) Close() {
	if s.alt != nil {
		s.alt.Close()
	}
	if s.cmd != nil && s.cmd.Process != nil {
		s.in.Close()
		s.cmd.Process.Kill()
		s.cmd.Wait()
	}
}

// readReply reads lines until one of sat/unsat/unknown (or an error) appears.
func (s *Solver) readLine() (string, error) {
	line, err := s.out.ReadString('\n')
	return strings.TrimSpace(line), err
}

// respawn replaces a killed process by a fresh one and replays the commands since the last reset.
func (s *Solver) respawn() {
	s.restart = false
	argv := solverArgv(s.kind, int(s.timeout/time.Millisecond))
	cmd := exec.Command(argv[0], argv[1:]...)
	in, err1 := cmd.StdinPipe()
	outp, err2 := cmd.StdoutPipe()
	cmd.Stderr = cmd.Stdout
	if err1 != nil || err2 != nil || cmd.Start() != nil {
		s.dead = true
		return
	}
	s.cmd, s.in, s.out, s.dead = cmd, in, bufio.NewReaderSize(outp, 1<<16), false
	io.WriteString(s.in, "(set-option :produce-models true)\n")
	io.WriteString(s.in, s.script.String())
}

func (s *Solver) kill() {
	if s.cmd != nil && s.cmd.Process != nil {
		s.cmd.Process.Kill()
		s.cmd.Wait()
	}
	s.dead = true
	s.restart = true
}

// Check runs (check-sat) and returns "sat", "unsat" or "unknown" (also for errors/timeouts). With a
// portfolio partner both processes are raced; the loser is killed and respawned lazily.
func (s *Solver) Check() string {
	if os.Getenv("GOSYM_DEBUG") != "" {
		t0 := time.Now()
		defer func() {
			if d := time.Since(t0); d > 3*time.Second {
				fmt.Fprintf(logw, "SLOW-QUERY %.1fs pid=%d\n", d.Seconds(), s.cmd.Process.Pid)
			}
		}()
	}
	if s.alt == nil {
		s.answer = s
		return s.check1()
	}
	alt := s.alt
	if s.restart {
		s.respawn()
	}
	if alt.restart {
		alt.respawn()
	}
	type ans struct {
		who *Solver
		r   string
	}
	ch := make(chan ans, 2)
	s.alt = nil
	go func() { ch <- ans{s, s.check1()} }()
	go func() { ch <- ans{alt, alt.check1()} }()
	first := <-ch
	res := first
	if first.r == "unknown" {
		second := <-ch
		res = second
		if second.r == "unknown" {
			res = first
		}
	} else {
		// kill the slower process unless it answers soon. The int-blasting cvc5 is the one every arithmetic
		// harness can be decided by on its own, so it gets half a second to finish (killing it means a respawn from
		// the transcript, which was the fragile step under load); bit-blasting z3 is cut off at once.
		other := alt
		if first.who == alt {
			other = s
		}
		grace := 20 * time.Millisecond
		if strings.HasPrefix(other.kind, "cvc5") {
			grace = 500 * time.Millisecond
		}
		select {
		case <-ch:
		case <-time.After(grace):
			other.kill()
			<-ch
			atomic.AddInt64(&gStats.Fallbacks, 1)
		}
	}
	s.alt = alt
	s.answer = res.who
	if res.r == "unknown" && !s.retried {
		// both inconclusive (time limit under load, or a killed process): one retry on fresh processes
		s.retried = true
		s.kill()
		alt.kill()
		r2 := s.Check()
		s.retried = false
		return r2
	}
	return res.r
}

// Dead reports whether no process of the portfolio can answer any more.
func (s *Solver) Dead() bool {
	if s.alt != nil {
		return (s.dead && !s.restart) && (s.alt.dead && !s.alt.restart)
	}
	return s.dead && !s.restart
}

func (s *Solver) check1() string {
	if s.dead {
		return "unknown"
	}
	start := time.Now()
	s.Send("(check-sat)\n")
	res := "unknown"
	// watchdog: the solvers' own soft timeouts are not always honoured
	wd := time.AfterFunc(s.timeout+10*time.Second, func() {
		fmt.Fprintf(logw, "SOLVER-WATCHDOG[%s]: no answer after %s, killing solver\n", s.kind, s.timeout+10*time.Second)
		if s.cmd != nil && s.cmd.Process != nil {
			s.cmd.Process.Kill()
		}
	})
	defer wd.Stop()
	for {
		line, err := s.readLine()
		if err != nil {
			s.dead = true
			res = "unknown"
			break
		}
		if line == "" {
			continue
		}
		if line == "sat" || line == "unsat" || line == "unknown" || line == "timeout" {
			res = line
			if res == "timeout" {
				res = "unknown"
			}
			break
		}
		if strings.HasPrefix(line, "(error") {
			// inconclusive; keep reading until the check-sat answer arrives
			fmt.Fprintf(logw, "SOLVER-ERROR[%s]: %s\n", s.kind, line)
			res = "unknown"
			// drain the answer of check-sat
			for {
				l2, err := s.readLine()
				if err != nil {
					s.dead = true
					break
				}
				if l2 == "sat" || l2 == "unsat" || l2 == "unknown" || l2 == "timeout" {
					break
				}
			}
			break
		}
	}
	d := time.Since(start).Nanoseconds()
	atomic.AddInt64(&gStats.Queries, 1)
	if strings.HasPrefix(s.kind, "z3") {
		atomic.AddInt64(&gStats.NanosZ3, d)
	} else {
		atomic.AddInt64(&gStats.NanosCVC, d)
	}
	switch res {
	case "sat":
		atomic.AddInt64(&gStats.Sat, 1)
	case "unsat":
		atomic.AddInt64(&gStats.Unsat, 1)
	default:
		atomic.AddInt64(&gStats.Unknown, 1)
	}
	return res
}

// GetValues returns model values for the named constants (after a sat answer).
func (s *Solver) GetValues(vars []*Term) map[string]uint64 {
	if s.answer != nil && s.answer != s {
		return s.answer.GetValues(vars)
	}
	if s.alt != nil {
		alt := s.alt
		s.alt = nil
		defer func() { s.alt = alt }()
	}
	res := map[string]uint64{}
	if len(vars) == 0 || s.dead {
		return res
	}
	var sb strings.Builder
	sb.WriteString("(get-value (")
	for _, v := range vars {
		sb.WriteString(smtName(v.Name) + " ")
	}
	sb.WriteString("))\n")
	s.Send(sb.String())
	// read balanced s-expression
	depth := 0
	var buf strings.Builder
	started := false
	for {
		r, _, err := s.out.ReadRune()
		if err != nil {
			s.dead = true
			return res
		}
		buf.WriteRune(r)
		if r == '|' { // quoted symbol: read to closing bar
			for {
				r2, _, err := s.out.ReadRune()
				if err != nil {
					s.dead = true
					return res
				}
				buf.WriteRune(r2)
				if r2 == '|' {
					break
				}
			}
			continue
		}
		if r == '(' {
			depth++
			started = true
		} else if r == ')' {
			depth--
			if started && depth == 0 {
				break
			}
		}
	}
	txt := buf.String()
	if os.Getenv("GOSYM_DEBUG") == "2" {
		fmt.Fprintf(logw, "get-value raw: %q\n", txt)
	}
	if strings.Contains(txt, "(error") {
		fmt.Fprintf(logw, "SOLVER-ERROR get-value: %s\n", txt)
		return res
	}
	toks := tokenizeSexp(txt)
	// pattern: ( ( name value ) ( name value ) ... ) where value may be nested
	i := 0
	expect := func(t string) bool {
		if i < len(toks) && toks[i] == t {
			i++
			return true
		}
		return false
	}
	if !expect("(") {
		return res
	}
	for i < len(toks) && toks[i] == "(" {
		i++
		name := toks[i]
		i++
		name = strings.Trim(name, "|")
		// value: atom or list
		var val []string
		if toks[i] == "(" {
			d := 0
			for {
				val = append(val, toks[i])
				if toks[i] == "(" {
					d++
				} else if toks[i] == ")" {
					d--
				}
				i++
				if d == 0 {
					break
				}
			}
		} else {
			val = []string{toks[i]}
			i++
		}
		expect(")")
		if v, ok := parseValue(val); ok {
			res[name] = v
		}
	}
	return res
}

func tokenizeSexp(s string) []string {
	var toks []string
	i := 0
	for i < len(s) {
		c := s[i]
		switch {
		case c == '(' || c == ')':
			toks = append(toks, string(c))
			i++
		case c == ' ' || c == '\n' || c == '\t' || c == '\r':
			i++
		case c == '|':
			j := i + 1
			for j < len(s) && s[j] != '|' {
				j++
			}
			toks = append(toks, s[i:j+1])
			i = j + 1
		default:
			j := i
			for j < len(s) && !strings.ContainsRune("() \n\t\r", rune(s[j])) {
				j++
			}
			toks = append(toks, s[i:j])
			i = j
		}
	}
	return toks
}

func parseValue(val []string) (uint64, bool) {
	if len(val) == 1 {
		a := val[0]
		switch {
		case a == "true":
			return 1, true
		case a == "false":
			return 0, true
		case strings.HasPrefix(a, "#x"):
			v, err := strconv.ParseUint(a[2:], 16, 64)
			return v, err == nil
		case strings.HasPrefix(a, "#b"):
			v, err := strconv.ParseUint(a[2:], 2, 64)
			return v, err == nil
		}
		return 0, false
	}
	// (_ bvN W)
	if len(val) == 5 && val[1] == "_" && strings.HasPrefix(val[2], "bv") {
		v, err := strconv.ParseUint(val[2][2:], 10, 64)
		return v, err == nil
	}
	// (fp #b. #b... #b...)
	if len(val) == 6 && val[1] == "fp" {
		bitsOf := func(a string) (uint64, int) {
			if strings.HasPrefix(a, "#b") {
				v, _ := strconv.ParseUint(a[2:], 2, 64)
				return v, len(a) - 2
			}
			if strings.HasPrefix(a, "#x") {
				v, _ := strconv.ParseUint(a[2:], 16, 64)
				return v, 4 * (len(a) - 2)
			}
			return 0, 0
		}
		sg, _ := bitsOf(val[2])
		ex, ew := bitsOf(val[3])
		mn, mw := bitsOf(val[4])
		return sg<<uint(ew+mw) | ex<<uint(mw) | mn, true
	}
	// (_ +zero 11 53) etc.
	if len(val) >= 5 && val[1] == "_" {
		w := 64
		if val[3] == "8" {
			w = 32
		}
		switch val[2] {
		case "+zero":
			return 0, true
		case "-zero":
			return 1 << uint(w-1), true
		case "+oo":
			if w == 32 {
				return 0x7f800000, true
			}
			return 0x7ff0000000000000, true
		case "-oo":
			if w == 32 {
				return 0xff800000, true
			}
			return 0xfff0000000000000, true
		case "NaN":
			if w == 32 {
				return 0x7fc00000, true
			}
			return 0x7ff8000000000000, true
		}
	}
	return 0, false
}
