package main

// Cooperative scheduler: every target goroutine runs on its own Go goroutine, but exactly one
// holds the baton at any time. Blocking operations hand the baton to another runnable goroutine.

import (
	"fmt"
	"go/token"
	"go/types"

	"golang.org/x/tools/go/ssa"
)

type G struct {
	id       int
	wake     chan struct{}
	done     bool
	started  bool
	waitCond func() bool
	waitDesc string
	isMain   bool
	draining bool
	pos      string
}

func (m *Machine) runnable(g *G) bool {
	if g.done || g.draining {
		return false
	}
	if g.waitCond == nil {
		return true
	}
	return g.waitCond()
}

// pickNext selects the next goroutine to run (never the draining main unless nothing else can run).
func (m *Machine) pickNext() *G {
	var cands []*G
	for _, g := range m.gs {
		if m.runnable(g) {
			cands = append(cands, g)
		}
	}
	if len(cands) == 0 {
		return nil
	}
	if len(cands) > 1 && m.schedSym {
		k := m.choose("sched", len(cands))
		return cands[k]
	}
	return cands[0]
}

// switchTo hands the baton to next and parks the current goroutine until it is woken again.
func (m *Machine) switchTo(self, next *G) {
	if next == self {
		return
	}
	m.cur = next
	next.wake <- struct{}{}
	if self != nil {
		<-self.wake
		if m.killed {
			panic(killSig{})
		}
		m.cur = self
	}
}

// block parks the current goroutine until cond() holds.
func (m *Machine) block(desc string, cond func() bool) {
	self := m.cur
	for !cond() {
		self.waitCond = cond
		self.waitDesc = desc
		next := m.pickNext()
		if next == nil {
			// nobody can run
			m.allBlocked()
		}
		m.switchTo(self, next)
	}
	self.waitCond = nil
	self.waitDesc = ""
}

// yield lets other runnable goroutines run first (used by runtime.Gosched and after spawn if requested).
func (m *Machine) yield() {
	self := m.cur
	self.waitCond = nil
	var cands []*G
	for _, g := range m.gs {
		if g != self && m.runnable(g) {
			cands = append(cands, g)
		}
	}
	if len(cands) == 0 {
		return
	}
	next := cands[0]
	m.switchTo(self, next)
}

func (m *Machine) allBlocked() {
	// called by the goroutine holding the baton when no goroutine is runnable
	var main *G
	for _, g := range m.gs {
		if g.isMain {
			main = g
		}
	}
	if main != nil && main.draining {
		// harness returned and everything else is blocked or done
		main.draining = false
		main.waitCond = func() bool { return true }
		return
	}
	desc := ""
	for _, g := range m.gs {
		if !g.done {
			desc += fmt.Sprintf("g%d[%s]@%s ", g.id, g.waitDesc, g.pos)
		}
	}
	m.end(OutDeadlock, "all goroutines blocked: %s", desc)
}

func (m *Machine) spawn(fn Value, args []Value, pos token.Pos) {
	g := &G{id: len(m.gs), wake: make(chan struct{}, 1), pos: m.pos(pos)}
	m.gs = append(m.gs, g)
	go m.runG(g, fn, args)
}

func (m *Machine) runG(g *G, fn Value, args []Value) {
	<-g.wake
	if m.killed {
		return
	}
	m.cur = g
	defer func() {
		r := recover()
		switch r := r.(type) {
		case nil:
		case killSig:
			return
		case pathEnd:
			m.finish(r.o)
			return
		case targetPanic:
			if g.isMain {
				m.finish(Outcome{Kind: OutPanic, Msg: "harness goroutine panicked: " + m.panicString(r.v)})
			} else {
				m.finish(Outcome{Kind: OutCrash, Msg: fmt.Sprintf("unrecovered panic in goroutine started at %s: %s", g.pos, m.panicString(r.v))})
			}
			return
		case lenientSkip:
			m.finish(Outcome{Kind: OutUnsupported, Msg: r.msg})
			return
		case internalErr:
			if m.extra["debug"] != nil {
				fmt.Fprintf(logw, "INTERNAL: %s\n target frames: %v\n%s\n", r.msg, r.frames, r.stack)
			}
			m.finish(Outcome{Kind: OutInternal, Msg: fmt.Sprintf("engine panic: %s in %v", r.msg, r.frames)})
			return
		default:
			m.finish(Outcome{Kind: OutInternal, Msg: fmt.Sprintf("engine panic: %v", r)})
			return
		}
		// normal end of goroutine
		g.done = true
		if g.isMain {
			return
		}
		next := m.pickNext()
		if next == nil {
			// maybe main is draining
			func() {
				defer func() {
					if r := recover(); r != nil {
						if pe, ok := r.(pathEnd); ok {
							m.finish(pe.o)
							return
						}
						panic(r)
					}
				}()
				m.allBlocked()
				next = m.pickNext()
			}()
			if next == nil {
				return
			}
		}
		m.cur = next
		next.wake <- struct{}{}
	}()
	m.call(nil, token.NoPos, fn, args)
	if g.isMain {
		// harness returned: let the remaining goroutines run to quiescence
		g.draining = true
		for {
			next := m.pickNext()
			if next == nil {
				break
			}
			m.switchTo(g, next)
			if !g.draining {
				break
			}
		}
		g.draining = false
		if m.checkLeak {
			for _, og := range m.gs {
				if og != g && !og.done {
					m.finish(Outcome{Kind: OutLeak, Msg: fmt.Sprintf("goroutine started at %s still blocked at end of request: %s", og.pos, og.waitDesc)})
					return
				}
			}
		}
		m.finish(Outcome{Kind: OutOK})
	}
}

func (m *Machine) finish(o Outcome) {
	if m.outcome == nil {
		m.outcome = &o
	}
	if !m.killed {
		m.killed = true
		for _, g := range m.gs {
			if g != m.cur && !g.done {
				select {
				case g.wake <- struct{}{}:
				default:
				}
			}
		}
		close(m.doneCh)
	}
}

func (m *Machine) panicString(v Value) string {
	switch v := v.(type) {
	case Iface:
		if v.T == nil {
			return "nil"
		}
		if s, ok := v.V.(Str); ok {
			return v.T.String() + ": " + s.String()
		}
		// error values: try Error()
		if fn := m.findMethod(v.T, "Error"); fn != nil {
			var res string
			func() {
				defer func() { recover() }()
				r := m.call(nil, token.NoPos, fn, []Value{v.V})
				if s, ok := r.(Str); ok {
					res = s.String()
				}
			}()
			if res != "" {
				return v.T.String() + ": " + res
			}
		}
		return v.T.String() + ": " + showValue(v.V)
	}
	return showValue(v)
}

// ---- channels ----

func (m *Machine) chanSend(ch *Chan, v Value) {
	if ch == nil {
		m.block("send on nil chan", func() bool { return false })
	}
	if ch.closed {
		panic(targetPanic{Iface{T: m.P.rtErr, V: CStr("send on closed channel")}})
	}
	v = copyVal(v)
	if ch.cap > 0 && len(ch.buf) < ch.cap && len(ch.sendq) == 0 {
		ch.buf = append(ch.buf, v)
		return
	}
	it := &sendItem{v: v}
	ch.sendq = append(ch.sendq, it)
	m.block(fmt.Sprintf("chan send c%d", ch.id), func() bool { return it.taken || ch.closed })
	if !it.taken {
		panic(targetPanic{Iface{T: m.P.rtErr, V: CStr("send on closed channel")}})
	}
}

func (ch *Chan) recvReady() bool {
	return ch != nil && (len(ch.buf) > 0 || len(ch.sendq) > 0 || ch.closed)
}

// take removes one value; caller checked recvReady.
func (ch *Chan) take() (Value, bool) {
	if len(ch.buf) > 0 {
		v := ch.buf[0]
		ch.buf = ch.buf[1:]
		if len(ch.sendq) > 0 {
			it := ch.sendq[0]
			ch.sendq = ch.sendq[1:]
			it.taken = true
			ch.buf = append(ch.buf, it.v)
		}
		return v, true
	}
	if len(ch.sendq) > 0 {
		it := ch.sendq[0]
		ch.sendq = ch.sendq[1:]
		it.taken = true
		return it.v, true
	}
	return nil, false // closed
}

func (m *Machine) chanRecv(ch *Chan) (Value, bool) {
	if ch == nil {
		m.block("recv on nil chan", func() bool { return false })
	}
	if !ch.recvReady() {
		ch.recvWaiters++
		m.block(fmt.Sprintf("chan recv c%d", ch.id), ch.recvReady)
		ch.recvWaiters--
	}
	return ch.take()
}

func (m *Machine) chanClose(ch *Chan) {
	if ch == nil {
		m.rtPanic("close of nil channel")
	}
	if ch.closed {
		panic(targetPanic{Iface{T: m.P.rtErr, V: CStr("close of closed channel")}})
	}
	ch.closed = true
}

func (ch *Chan) sendReady() bool {
	if ch == nil {
		return false
	}
	if ch.closed {
		return true // will panic
	}
	if ch.cap > 0 && len(ch.buf) < ch.cap {
		return true
	}
	return ch.recvWaiters > len(ch.sendq)
}

func (m *Machine) selectOp(fr *frame, instr *ssa.Select) Value {
	type cs struct {
		ch   *Chan
		send bool
		v    Value
	}
	var cases []cs
	for _, st := range instr.States {
		c := cs{ch: fr.get(st.Chan).(*Chan), send: st.Dir == types.SendOnly}
		if c.send {
			c.v = fr.get(st.Send)
		}
		cases = append(cases, c)
	}
	ready := func() []int {
		var r []int
		for i, c := range cases {
			if c.send {
				if c.ch.sendReady() {
					r = append(r, i)
				}
			} else if c.ch.recvReady() {
				r = append(r, i)
			}
		}
		return r
	}
	rd := ready()
	chosen := -1
	if len(rd) == 0 {
		if instr.Blocking {
			for _, c := range cases {
				if !c.send && c.ch != nil {
					c.ch.recvWaiters++
				}
			}
			m.block("select", func() bool { return len(ready()) > 0 })
			for _, c := range cases {
				if !c.send && c.ch != nil {
					c.ch.recvWaiters--
				}
			}
			rd = ready()
		}
	}
	if len(rd) > 0 {
		k := 0
		if len(rd) > 1 {
			k = m.choose("select", len(rd))
		}
		chosen = rd[k]
	}
	var recvV Value
	recvOk := false
	if chosen >= 0 {
		c := cases[chosen]
		if c.send {
			m.chanSend(c.ch, c.v)
		} else {
			recvV, recvOk = c.ch.take()
		}
	}
	r := Tuple{BV(64, uint64(int64(chosen))), BoolT(recvOk)}
	for i, st := range instr.States {
		if st.Dir == types.RecvOnly {
			var v Value
			if i == chosen && recvOk {
				v = recvV
			} else {
				v = zero(st.Chan.Type().Underlying().(*types.Chan).Elem())
			}
			r = append(r, v)
		}
	}
	return r
}

// choose returns a nondeterministic value in [0,n) by forking (recorded as an input for replay).
func (m *Machine) choose(label string, n int) int {
	if n <= 1 {
		return 0
	}
	kind := "choice"
	switch label {
	case "sched", "select", "maporder":
		kind = "env-choice" // engine-internal nondeterminism: not part of the native replay vector
	}
	in := m.path.NewInput(label, kind, SBV(64))
	in.Lo, in.Hi = 0, int64(n-1)
	m.path.assert(BVCmp(OpBVUlt, in.T, BV(64, uint64(n))))
	return int(m.concretize(in.T))
}
