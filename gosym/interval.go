package main

// Cheap unsigned-interval reasoning used to settle branch conditions without a solver call. It is only
// ever used to prove a direction infeasible-for-sure; anything it cannot decide goes to the solver.

type ival struct {
	lo, hi uint64
	ok     bool
}

func full(w int) ival { return ival{0, mask(w), true} }

// learn records bounds implied by an asserted constraint (simple shapes only).
func (p *Path) learn(t *Term, positive bool) {
	switch t.Op {
	case OpNot:
		p.learn(t.Args[0], !positive)
	case OpAnd:
		if positive {
			p.learn(t.Args[0], true)
			p.learn(t.Args[1], true)
		}
	case OpOr:
		if !positive {
			p.learn(t.Args[0], false)
			p.learn(t.Args[1], false)
		}
	case OpBVUle, OpBVUlt:
		a, b := t.Args[0], t.Args[1]
		strict := t.Op == OpBVUlt
		if !positive { // not(a <= b)  ==  b < a ; not(a < b) == b <= a
			a, b = b, a
			strict = !strict
		}
		// a (<|<=) b
		if a.Op == OpVar && b.IsConst() {
			hi := b.C
			if strict {
				if hi == 0 {
					return
				}
				hi--
			}
			p.tighten(a, 0, hi)
		} else if b.Op == OpVar && a.IsConst() {
			lo := a.C
			if strict {
				if lo == mask(b.Sort.W) {
					return
				}
				lo++
			}
			p.tighten(b, lo, mask(b.Sort.W))
		}
	case OpBVSle, OpBVSlt:
		// signed bounds are usable when both ends are non-negative
		a, b := t.Args[0], t.Args[1]
		strict := t.Op == OpBVSlt
		if !positive {
			a, b = b, a
			strict = !strict
		}
		w := a.Sort.W
		if b.Op == OpVar && a.IsConst() && sx(a.C, w) >= 0 {
			lo := a.C
			if strict {
				lo++
			}
			// var >= lo >= 0 (signed): upper bound is max signed
			p.tighten(b, lo, mask(w)>>1)
		} else if a.Op == OpVar && b.IsConst() && sx(b.C, w) >= 0 {
			// var <= c signed: only gives an unsigned bound if var is known non-negative
			if r, ok := p.ranges[a.Name]; ok && r.hi <= mask(w)>>1 {
				hi := b.C
				if strict {
					if hi == 0 {
						return
					}
					hi--
				}
				p.tighten(a, r.lo, hi)
			}
		}
	case OpEq:
		if positive {
			a, b := t.Args[0], t.Args[1]
			if a.Op == OpVar && b.IsConst() && a.Sort.K == KBV {
				p.tighten(a, b.C, b.C)
			} else if b.Op == OpVar && a.IsConst() && b.Sort.K == KBV {
				p.tighten(b, a.C, a.C)
			}
		}
	}
}

func (p *Path) tighten(v *Term, lo, hi uint64) {
	if p.ranges == nil {
		p.ranges = map[string]ival{}
	}
	r, ok := p.ranges[v.Name]
	if !ok {
		r = full(v.Sort.W)
	}
	if lo > r.lo {
		r.lo = lo
	}
	if hi < r.hi {
		r.hi = hi
	}
	p.ranges[v.Name] = r
	p.ivalMemo = nil
}

// interval computes unsigned bounds of a bit-vector term.
func (p *Path) interval(t *Term) ival {
	if t.Sort.K != KBV {
		return ival{}
	}
	switch t.Op {
	case OpConst:
		return ival{t.C, t.C, true}
	case OpVar:
		if r, ok := p.ranges[t.Name]; ok {
			return r
		}
		return full(t.Sort.W)
	}
	if p.ivalMemo == nil {
		p.ivalMemo = map[*Term]ival{}
	}
	if r, ok := p.ivalMemo[t]; ok {
		return r
	}
	w := t.Sort.W
	r := full(w)
	switch t.Op {
	case OpZext:
		r = p.interval(t.Args[0])
	case OpExtract:
		a := p.interval(t.Args[0])
		if t.P2 == 0 && a.ok && a.hi <= mask(w) {
			r = a
		}
	case OpBVAdd:
		a, b := p.interval(t.Args[0]), p.interval(t.Args[1])
		if a.ok && b.ok {
			lo, hi := a.lo+b.lo, a.hi+b.hi
			if hi >= a.hi && hi <= mask(w) && lo >= a.lo { // no wrap
				r = ival{lo, hi, true}
			} else if b.lo == b.hi && a.lo+b.lo > a.lo == false && a.lo >= -b.lo && w == 64 {
				// adding a "negative" constant to a range that stays non-negative: x + (-c) with x >= c
				r = ival{a.lo + b.lo, a.hi + b.lo, true}
			} else if b.lo == b.hi && w < 64 {
				c := b.lo
				if a.lo+c > mask(w) && a.hi+c > mask(w) { // both wrap: subtract 2^w
					r = ival{(a.lo + c) & mask(w), (a.hi + c) & mask(w), true}
				}
			}
		}
	case OpBVMul:
		a, b := p.interval(t.Args[0]), p.interval(t.Args[1])
		if a.ok && b.ok && a.hi != 0 && b.hi <= mask(w)/a.hi {
			r = ival{a.lo * b.lo, a.hi * b.hi, true}
		} else if a.ok && b.ok && a.hi == 0 {
			r = ival{0, 0, true}
		}
	case OpBVAnd:
		a, b := p.interval(t.Args[0]), p.interval(t.Args[1])
		hi := a.hi
		if b.hi < hi {
			hi = b.hi
		}
		r = ival{0, hi, true}
	case OpIte:
		a, b := p.interval(t.Args[1]), p.interval(t.Args[2])
		if a.ok && b.ok {
			r = ival{a.lo, a.hi, true}
			if b.lo < r.lo {
				r.lo = b.lo
			}
			if b.hi > r.hi {
				r.hi = b.hi
			}
		}
	case OpBVLshr:
		a := p.interval(t.Args[0])
		if t.Args[1].IsConst() && t.Args[1].C < 64 && a.ok {
			r = ival{a.lo >> t.Args[1].C, a.hi >> t.Args[1].C, true}
		}
	case OpBVUDiv:
		a := p.interval(t.Args[0])
		if t.Args[1].IsConst() && t.Args[1].C != 0 && a.ok {
			r = ival{a.lo / t.Args[1].C, a.hi / t.Args[1].C, true}
		}
	case OpBVURem:
		if t.Args[1].IsConst() && t.Args[1].C != 0 {
			r = ival{0, t.Args[1].C - 1, true}
		}
	}
	p.ivalMemo[t] = r
	return r
}

// quickBool returns (value, true) if the intervals decide the condition.
func (p *Path) quickBool(c *Term) (bool, bool) {
	switch c.Op {
	case OpConst:
		return c.C == 1, true
	case OpNot:
		v, ok := p.quickBool(c.Args[0])
		return !v, ok
	case OpAnd:
		a, oka := p.quickBool(c.Args[0])
		b, okb := p.quickBool(c.Args[1])
		if oka && !a || okb && !b {
			return false, true
		}
		if oka && okb {
			return true, true
		}
	case OpOr:
		a, oka := p.quickBool(c.Args[0])
		b, okb := p.quickBool(c.Args[1])
		if oka && a || okb && b {
			return true, true
		}
		if oka && okb {
			return false, true
		}
	case OpEq:
		if c.Args[0].Sort.K != KBV {
			return false, false
		}
		a, b := p.interval(c.Args[0]), p.interval(c.Args[1])
		if a.ok && b.ok {
			if a.hi < b.lo || b.hi < a.lo {
				return false, true
			}
			if a.lo == a.hi && b.lo == b.hi && a.lo == b.lo {
				return true, true
			}
		}
	case OpBVUlt:
		a, b := p.interval(c.Args[0]), p.interval(c.Args[1])
		if a.ok && b.ok {
			if a.hi < b.lo {
				return true, true
			}
			if a.lo >= b.hi {
				return false, true
			}
		}
	case OpBVUle:
		a, b := p.interval(c.Args[0]), p.interval(c.Args[1])
		if a.ok && b.ok {
			if a.hi <= b.lo {
				return true, true
			}
			if a.lo > b.hi {
				return false, true
			}
		}
	case OpBVSlt, OpBVSle:
		a, b := p.interval(c.Args[0]), p.interval(c.Args[1])
		w := c.Args[0].Sort.W
		half := mask(w) >> 1
		if a.ok && b.ok && a.hi <= half && b.hi <= half { // both non-negative: same as unsigned
			if c.Op == OpBVSlt {
				if a.hi < b.lo {
					return true, true
				}
				if a.lo >= b.hi {
					return false, true
				}
			} else {
				if a.hi <= b.lo {
					return true, true
				}
				if a.lo > b.hi {
					return false, true
				}
			}
		}
	}
	return false, false
}

// scaledBy recognises x = y*k + c with 0 <= c < k where, by the unsigned intervals known on this path,
// y*k + c neither wraps nor (for signed division) reaches the sign bit.
func (p *Path) scaledBy(x *Term, k uint64, signed bool) (*Term, uint64, bool) {
	if k == 0 || (signed && int64(k) < 0) {
		return nil, 0, false
	}
	var c uint64
	prod := x
	if x.Op == OpBVAdd {
		switch {
		case x.Args[1].IsConst():
			prod, c = x.Args[0], x.Args[1].C
		case x.Args[0].IsConst():
			prod, c = x.Args[1], x.Args[0].C
		default:
			return nil, 0, false
		}
	}
	if c >= k || prod.Op != OpBVMul {
		return nil, 0, false
	}
	var y *Term
	switch {
	case prod.Args[1].IsConst() && prod.Args[1].C == k:
		y = prod.Args[0]
	case prod.Args[0].IsConst() && prod.Args[0].C == k:
		y = prod.Args[1]
	default:
		return nil, 0, false
	}
	iv := p.interval(y)
	limit := mask(64)
	if signed {
		limit = 1<<63 - 1
	}
	if !iv.ok || iv.hi > (limit-c)/k {
		return nil, 0, false
	}
	return y, c, true
}

// nonNegNoWrap: by the intervals of this path, x is non-negative as a signed 64-bit value.
func (p *Path) nonNeg(x *Term) bool {
	iv := p.interval(x)
	return iv.ok && iv.hi <= 1<<63-1
}

// remConst / divConst build x % k and x / k (signed, k > 0 constant) after the rewrites that need no solver:
//   (y*k + c) with 0 <= c < k            -> c          / y
//   (y + c) with k | c, y >= 0, c >= 0   -> y % k      / y / k + c/k
//   x - (x % k)                          ->            / x / k
func (p *Path) remConst(x *Term, k uint64) *Term {
	if _, r, ok := p.scaledBy(x, k, true); ok {
		return BV(64, r)
	}
	if x.Op == OpBVAdd && x.Args[1].IsConst() && x.Args[1].C%k == 0 && int64(x.Args[1].C) >= 0 && p.nonNeg(x.Args[0]) && p.nonNeg(x) {
		return p.remConst(x.Args[0], k)
	}
	return BVBin(OpBVSRem, x, BV(64, k))
}

func (p *Path) divConst(x *Term, k uint64) *Term {
	if q, _, ok := p.scaledBy(x, k, true); ok {
		return q
	}
	if x.Op == OpBVAdd && x.Args[1].IsConst() && x.Args[1].C%k == 0 && int64(x.Args[1].C) >= 0 && p.nonNeg(x.Args[0]) && p.nonNeg(x) {
		return BVBin(OpBVAdd, p.divConst(x.Args[0], k), BV(64, x.Args[1].C/k))
	}
	if x.Op == OpBVSub && x.Args[1].Op == OpBVSRem && x.Args[1].Args[0] == x.Args[0] && x.Args[1].Args[1].IsConst() && x.Args[1].Args[1].C == k {
		return p.divConst(x.Args[0], k)
	}
	return BVBin(OpBVSDiv, x, BV(64, k))
}
