package main

import (
	"go/token"
	"go/types"

	"golang.org/x/tools/go/ssa"
)

// If-conversion of triangles. For
//
//	if c { <a few loads, arithmetic and scalar stores> }      (or the mirrored else-only form)
//
// with a symbolic c, the side block is evaluated speculatively and its effects are merged with
// ite(c, new, old) instead of forking the path: running maxima/minima, counters and flags ("if x > max
// { max = x }") otherwise double the number of paths at every element. The side block must be free of
// anything that can panic, block, fork or allocate: only field/element addresses with concrete in-range
// indices, loads, integer/float/bool arithmetic without division or shifts by non-constants, numeric
// conversions and stores of scalars into scalar cells. Anything else falls back to forking.

func endsInJumpTo(b, to *ssa.BasicBlock) bool {
	if len(b.Instrs) == 0 || len(b.Succs) != 1 || b.Succs[0] != to {
		return false
	}
	_, ok := b.Instrs[len(b.Instrs)-1].(*ssa.Jump)
	return ok
}

func isNumericBasic(t types.Type) bool {
	b, ok := t.Underlying().(*types.Basic)
	return ok && b.Info()&(types.IsNumeric|types.IsBoolean) != 0 && b.Info()&types.IsComplex == 0
}

type pendingStore struct {
	addr *Value
	v    *Term
}

func (m *Machine) tryIfConvert(fr *frame, c *Term) bool {
	if m.noIfConv {
		return false
	}
	b := fr.block
	s0, s1 := b.Succs[0], b.Succs[1]
	var side, join *ssa.BasicBlock
	cond := c
	switch {
	case s0 != s1 && len(s0.Preds) == 1 && endsInJumpTo(s0, s1):
		side, join = s0, s1
	case s0 != s1 && len(s1.Preds) == 1 && endsInJumpTo(s1, s0):
		side, join, cond = s1, s0, Not(c)
	default:
		return false
	}
	if len(side.Instrs) > 16 {
		return false
	}
	tmp := map[ssa.Value]Value{}
	get := func(v ssa.Value) Value {
		if x, ok := tmp[v]; ok {
			return x
		}
		return fr.get(v)
	}
	var stores []pendingStore
	cur := func(p *Value) Value {
		for i := len(stores) - 1; i >= 0; i-- {
			if stores[i].addr == p {
				return stores[i].v
			}
		}
		return *p
	}
	for _, in := range side.Instrs[:len(side.Instrs)-1] {
		switch in := in.(type) {
		case *ssa.DebugRef:
		case *ssa.FieldAddr:
			p, ok := get(in.X).(*Value)
			if !ok || p == nil {
				return false
			}
			st, ok := (*p).(Struct)
			if !ok {
				return false
			}
			tmp[in] = &st[in.Field]
		case *ssa.IndexAddr:
			idx, ok := get(in.Index).(*Term)
			if !ok || !idx.IsConst() {
				return false
			}
			var elems []Value
			switch x := get(in.X).(type) {
			case []Value:
				elems = x
			case *Value:
				if x == nil {
					return false
				}
				a, ok := (*x).(Array)
				if !ok {
					return false
				}
				elems = a
			default:
				return false
			}
			i := idx.S()
			if !isSigned(in.Index.Type()) && idx.C >= uint64(len(elems)) || isSigned(in.Index.Type()) && (i < 0 || i >= int64(len(elems))) {
				return false
			}
			tmp[in] = &elems[idx.C]
		case *ssa.UnOp:
			switch in.Op {
			case token.MUL:
				p, ok := get(in.X).(*Value)
				if !ok || p == nil {
					return false
				}
				switch deref(in.X.Type()).Underlying().(type) {
				case *types.Struct, *types.Array:
					return false
				}
				tmp[in] = cur(p)
			case token.NOT, token.SUB, token.XOR:
				x, ok := get(in.X).(*Term)
				if !ok {
					return false
				}
				tmp[in] = m.unop(fr, in, x)
			default:
				return false
			}
		case *ssa.BinOp:
			x, okx := get(in.X).(*Term)
			y, oky := get(in.Y).(*Term)
			if !okx || !oky || !isNumericBasic(in.X.Type()) || !isNumericBasic(in.Y.Type()) {
				return false
			}
			switch in.Op {
			case token.QUO, token.REM, token.SHL, token.SHR:
				if !y.IsConst() || y.C == 0 || y.S() < 0 {
					return false
				}
			}
			tmp[in] = m.binop(in.Op, in.X.Type(), in.Y.Type(), x, y)
		case *ssa.Convert:
			x, ok := get(in.X).(*Term)
			if !ok || !isNumericBasic(in.X.Type()) || !isNumericBasic(in.Type()) {
				return false
			}
			tmp[in] = m.conv(in.Type(), in.X.Type(), x)
		case *ssa.ChangeType:
			tmp[in] = get(in.X)
		case *ssa.Store:
			p, ok := get(in.Addr).(*Value)
			if !ok || p == nil {
				return false
			}
			v, ok := get(in.Val).(*Term)
			if !ok {
				return false
			}
			old, ok := cur(p).(*Term)
			if !ok || old.Sort != v.Sort {
				return false
			}
			stores = append(stores, pendingStore{p, v})
		default:
			return false
		}
	}
	// phis of the join block
	ps, pb := -1, -1
	for i, p := range join.Preds {
		if p == side {
			ps = i
		} else if p == b {
			pb = i
		}
	}
	if ps < 0 || pb < 0 {
		return false
	}
	ov := map[*ssa.Phi]Value{}
	for _, in := range join.Instrs {
		phi, ok := in.(*ssa.Phi)
		if !ok {
			break
		}
		vs, vb := get(phi.Edges[ps]), fr.get(phi.Edges[pb])
		ts, ok1 := vs.(*Term)
		tb, ok2 := vb.(*Term)
		if !ok1 || !ok2 || ts.Sort != tb.Sort {
			return false
		}
		ov[phi] = Ite(cond, ts, tb)
	}
	// Register-only triangles (clamps, carries in library arithmetic) are left to forking: merging them
	// makes every later query carry the ite, which measurably slows date/format arithmetic, while the
	// path-doubling patterns this is meant for (running max/min, counters, flags kept in memory across
	// loop iterations) all contain a store.
	if len(stores) == 0 && !m.ifConvAll {
		return false
	}
	// commit
	orig := map[*Value]*Term{}
	for _, st := range stores {
		if _, seen := orig[st.addr]; !seen {
			orig[st.addr] = (*st.addr).(*Term)
		}
	}
	for _, st := range stores {
		*st.addr = Ite(cond, st.v, orig[st.addr])
	}
	m.stubs["if-conversion: small scalar side block merged with ite instead of forking"]++
	fr.phiOverride = ov
	fr.jump(join, false)
	fr.prevBlock = b
	return true
}
