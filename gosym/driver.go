package main

import (
	"bufio"
	"crypto/sha1"
	"encoding/json"
	"fmt"
	"go/types"
	"io"
	"os"
	"os/exec"
	"path/filepath"
	"regexp"
	"sort"
	"strings"
	"sync"
	"sync/atomic"
	"time"

	"golang.org/x/tools/go/packages"
	"golang.org/x/tools/go/ssa"
	"golang.org/x/tools/go/ssa/ssautil"
)

var logw io.Writer = os.Stderr

// repoDir is the tree under check: /repo for every registered command; VERIF_REPO points the same machinery at
// a scratch worktree (used only to try seeded changes without touching /repo; evidence then goes to a scratch
// directory, never to /verif/evidence).
var repoDir = func() string {
	if d := os.Getenv("VERIF_REPO"); d != "" {
		return d
	}
	return "/repo"
}()
const modPath = "github.com/metrico/qryn"

type HarnessFile struct {
	Path    string // /verif/harness/C17/x.go
	PkgDir  string // reader/model
	Virtual string // /repo/reader/model/zz_verif_C17_x.go
}

func verifDir() string {
	if d := os.Getenv("VERIF_DIR"); d != "" {
		return d
	}
	return "/verif"
}

var pkgDirRe = regexp.MustCompile(`(?m)^//\s*verif:pkg\s+(\S+)`)

func collectHarnessFiles(prop string) ([]HarnessFile, error) {
	dir := filepath.Join(verifDir(), "harness", prop)
	ents, err := os.ReadDir(dir)
	if err != nil {
		return nil, err
	}
	var out []HarnessFile
	for _, e := range ents {
		if !strings.HasSuffix(e.Name(), ".go") {
			continue
		}
		p := filepath.Join(dir, e.Name())
		data, err := os.ReadFile(p)
		if err != nil {
			return nil, err
		}
		mm := pkgDirRe.FindSubmatch(data)
		if mm == nil {
			return nil, fmt.Errorf("%s: missing '// verif:pkg <dir>' line", p)
		}
		pd := string(mm[1])
		virt := filepath.Join(repoDir, pd, "zz_verif_"+prop+"_"+e.Name())
		out = append(out, HarnessFile{Path: p, PkgDir: pd, Virtual: virt})
	}
	return out, nil
}

// helper packages injected next to vrt as github.com/metrico/qryn/zzverif/<name>
var virtualPkgs = []string{"vlib", "vsql"}

func overlayMap(hfs []HarnessFile) map[string][]byte {
	ov := map[string][]byte{}
	for _, h := range hfs {
		data, _ := os.ReadFile(h.Path)
		ov[h.Virtual] = data
	}
	data, _ := os.ReadFile(filepath.Join(verifDir(), "vrt", "vrt.go"))
	ov[filepath.Join(repoDir, "zzverif", "vrt", "vrt.go")] = data
	for _, vp := range virtualPkgs {
		if ents, err := os.ReadDir(filepath.Join(verifDir(), vp)); err == nil {
			for _, e := range ents {
				if strings.HasSuffix(e.Name(), ".go") {
					d, _ := os.ReadFile(filepath.Join(verifDir(), vp, e.Name()))
					ov[filepath.Join(repoDir, "zzverif", vp, e.Name())] = d
				}
			}
		}
	}
	return ov
}

func goEnv() []string {
	env := os.Environ()
	env = append(env, "GOFLAGS=-mod=mod", "GOPROXY=off", "GONOSUMDB=*", "GONOSUMCHECK=1", "GOFLAGS=-mod=mod")
	return env
}

func loadProgram(hfs []HarnessFile, extraPkgs []string) (*Program, []*packages.Package, error) {
	pats := map[string]bool{}
	for _, h := range hfs {
		pats["./"+h.PkgDir] = true
	}
	for _, p := range extraPkgs {
		pats[p] = true
	}
	var patterns []string
	for p := range pats {
		patterns = append(patterns, p)
	}
	sort.Strings(patterns)
	cfg := &packages.Config{
		Mode:       packages.LoadAllSyntax,
		Dir:        repoDir,
		Env:        goEnv(),
		BuildFlags: []string{"-tags=verif"},
		Overlay:    overlayMap(hfs),
	}
	t0 := time.Now()
	pkgs, err := packages.Load(cfg, patterns...)
	if err != nil {
		return nil, nil, err
	}
	nerr := 0
	packages.Visit(pkgs, nil, func(p *packages.Package) {
		for _, e := range p.Errors {
			if nerr < 20 {
				fmt.Fprintf(logw, "load error: %s: %v\n", p.PkgPath, e)
			}
			nerr++
		}
	})
	if nerr > 0 {
		return nil, nil, fmt.Errorf("%d package load errors", nerr)
	}
	prog, _ := ssautil.AllPackages(pkgs, ssa.InstantiateGenerics|ssa.SanityCheckFunctions&0)
	prog.Build()
	fmt.Fprintf(logw, "loaded %d root packages, built SSA in %.1fs\n", len(pkgs), time.Since(t0).Seconds())
	P := &Program{prog: prog, pkgs: map[string]*ssa.Package{}, repoDir: repoDir}
	for _, p := range prog.AllPackages() {
		P.pkgs[p.Pkg.Path()] = p
	}
	rt := prog.ImportedPackage("runtime")
	if rt == nil {
		return nil, nil, fmt.Errorf("runtime package not loaded")
	}
	P.rtErr = rt.Type("errorString").Object().Type()
	ep := prog.ImportedPackage("errors")
	if ep == nil {
		return nil, nil, fmt.Errorf("errors package not loaded")
	}
	P.errStr = types.NewPointer(ep.Type("errorString").Object().Type())
	return P, pkgs, nil
}

// ---- exploration ----

type PathResult struct {
	Prefix   []Dec
	Trace    []Dec
	Outcome  Outcome
	Inputs   []ReplayInput
	ModelRes string
	Reach    map[string]int
	Steps    int
	Sym      int
	Unknowns int
	Known    []string
	Notes    []string
	work     []WorkItem
}

type ReplayInput struct {
	Label string `json:"label"`
	Kind  string `json:"kind"`
	Value uint64 `json:"value"`
}

type ExploreOpts struct {
	Workers   int
	MaxPaths  int
	Solver    string
	Timeout   time.Duration
	Thorough  bool
	Known     map[string]bool
	KnownMode string
	StopAtFirstViolation bool
	Deadline  time.Time
}

type HarnessResult struct {
	Name      string
	Paths     []*PathResult // violations and a sample of ok paths
	NPaths    int
	NOK       int
	NAssumeF  int
	NKnown    int
	ByKind    map[OutcomeKind]int
	Reach     map[string]int
	Funcs     map[string]int
	Stubs     map[string]int
	SymPaths  int
	Capped    bool
	Unknowns  int
	MaxTrace  int
	Wall      float64
	KnownHit  map[string]int
	Samples   []string
	OKSample  *PathResult
}

func runPath(P *Program, fn *ssa.Function, wi WorkItem, s *Solver, o *ExploreOpts, funcs map[*ssa.Function]int, stubs map[string]int) *PathResult {
	prefix := wi.Prefix
	p := NewPath(wi, s)
	m := &Machine{
		P: P, path: p, globals: map[*ssa.Global]*Value{}, initDone: map[*ssa.Package]bool{},
		maxSteps: 20_000_000, unwind: 64, cunwind: 100000, funcs: funcs, stubs: stubs,
		doneCh: make(chan struct{}), side: map[*Value]any{}, opts: map[string]int64{},
		known: o.Known, knownMode: o.KnownMode, rows: map[*Value]*sqlRows{}, extra: map[string]any{},
	}
	if os.Getenv("GOSYM_DEBUG") != "" {
		m.extra["debug"] = true
	}
	m.noIfConv = os.Getenv("GOSYM_NOIFCONV") != ""
	m.ifConvAll = os.Getenv("GOSYM_IFCONV_ALL") != ""
	if os.Getenv("GOSYM_PROFILE") != "" {
		m.sites = stubs // fork sites are reported with the stubs when profiling
	}
	if o.Thorough {
		m.opts["thorough"] = 1
	}
	g := &G{id: 0, wake: make(chan struct{}, 1), isMain: true, pos: "harness"}
	m.gs = append(m.gs, g)
	go m.runG(g, fn, nil)
	g.wake <- struct{}{}
	<-m.doneCh
	res := &PathResult{Prefix: prefix, Trace: p.trace, Outcome: *m.outcome, Reach: p.reach, Steps: m.steps, Sym: p.symbolicObligations, Unknowns: p.unknowns, Notes: p.notes}
	for id := range p.knownHit {
		res.Known = append(res.Known, id)
	}
	if res.Outcome.IsViolation() || res.Outcome.Kind == OutOK {
		// model for replay / sample
		model, r := p.Model()
		res.ModelRes = r
		if r == "sat" {
			for _, in := range p.inputs {
				if strings.HasPrefix(in.Kind, "env-") {
					continue
				}
				v := model[in.T.Name]
				if in.T.Sort.K == KBV && in.T.Sort.W < 64 {
					v &= mask(in.T.Sort.W)
				}
				res.Inputs = append(res.Inputs, ReplayInput{Label: in.Label, Kind: in.Kind, Value: v})
			}
		}
	}
	res.work = p.newWork
	return res
}

func explore(P *Program, fn *ssa.Function, o ExploreOpts) *HarnessResult {
	t0 := time.Now()
	hr := &HarnessResult{Name: fn.Name(), ByKind: map[OutcomeKind]int{}, Reach: map[string]int{}, Funcs: map[string]int{}, Stubs: map[string]int{}, KnownHit: map[string]int{}}
	var mu sync.Mutex
	queue := []WorkItem{{}}
	active := 0
	cond := sync.NewCond(&mu)
	var npaths int64
	stop := false
	var wg sync.WaitGroup
	progressStop := make(chan struct{})
	go func() {
		tk := time.NewTicker(15 * time.Second)
		defer tk.Stop()
		for {
			select {
			case <-progressStop:
				return
			case <-tk.C:
				mu.Lock()
				fmt.Fprintf(logw, "  .. %s: %d paths done, %d queued, %d active, kinds=%v queries=%d\n", fn.Name(), hr.NPaths, len(queue), active, hr.ByKind, atomic.LoadInt64(&gStats.Queries))
				mu.Unlock()
			}
		}
	}()
	defer close(progressStop)
	for w := 0; w < o.Workers; w++ {
		wg.Add(1)
		go func() {
			defer wg.Done()
			s, err := NewSolver(o.Solver, o.Timeout)
			if err != nil {
				fmt.Fprintf(logw, "solver start: %v\n", err)
				return
			}
			defer s.Close()
			funcs := map[*ssa.Function]int{}
			stubs := map[string]int{}
			for {
				mu.Lock()
				for len(queue) == 0 && active > 0 && !stop {
					cond.Wait()
				}
				if stop || (len(queue) == 0 && active == 0) {
					mu.Unlock()
					cond.Broadcast()
					break
				}
				prefix := queue[len(queue)-1]
				queue = queue[:len(queue)-1]
				active++
				mu.Unlock()

				if s.Dead() {
					s.Close()
					s, _ = NewSolver(o.Solver, o.Timeout)
				}
				res := runPath(P, fn, prefix, s, &o, funcs, stubs)
				n := atomic.AddInt64(&npaths, 1)

				mu.Lock()
				active--
				queue = append(queue, res.work...)
				res.work = nil
				hr.NPaths++
				hr.ByKind[res.Outcome.Kind]++
				hr.Unknowns += res.Unknowns
				if len(res.Trace) > hr.MaxTrace {
					hr.MaxTrace = len(res.Trace)
				}
				if res.Sym > 0 {
					hr.SymPaths++
				}
				for k, v := range res.Reach {
					if res.Outcome.Kind == OutOK || res.Outcome.IsViolation() || res.Outcome.Kind == OutKnown {
						hr.Reach[k] += v
					}
				}
				for _, id := range res.Known {
					hr.KnownHit[id]++
				}
				switch {
				case res.Outcome.Kind == OutOK:
					hr.NOK++
					if res.ModelRes == "sat" && (hr.OKSample == nil || len(res.Inputs) > len(hr.OKSample.Inputs)) {
						hr.OKSample = res
					}
					if len(hr.Samples) < 5 && len(res.Inputs) > 0 {
						hr.Samples = append(hr.Samples, sampleString(res))
					}
				case res.Outcome.Kind == OutAssumeFalse || res.Outcome.Kind == OutInfeasible:
					hr.NAssumeF++
				case res.Outcome.Kind == OutKnown:
					hr.NKnown++
				default:
					hr.Paths = append(hr.Paths, res)
					if o.StopAtFirstViolation && res.Outcome.IsViolation() && res.ModelRes == "sat" && len(res.Known) > 0 {
						stop = true
					}
				}
				if hr.Unknowns >= 3 && !stop {
					// inconclusive anyway: do not spend the remaining paths on more solver timeouts
					fmt.Fprintf(logw, "  .. %s: %d solver answers unknown, abandoning the remaining paths (inconclusive)\n", fn.Name(), hr.Unknowns)
					hr.Capped = true
					stop = true
				}
				if int(n) >= o.MaxPaths || (!o.Deadline.IsZero() && time.Now().After(o.Deadline)) {
					if len(queue) > 0 {
						hr.Capped = true
					}
					stop = true
				}
				mu.Unlock()
				cond.Broadcast()
			}
			mu.Lock()
			for f, n := range funcs {
				hr.Funcs[f.String()] += n
			}
			for k, n := range stubs {
				hr.Stubs[k] += n
			}
			mu.Unlock()
		}()
	}
	wg.Wait()
	hr.Wall = time.Since(t0).Seconds()
	return hr
}

func sampleString(r *PathResult) string {
	var sb strings.Builder
	fmt.Fprintf(&sb, "%s: path=%s inputs={", r.Outcome.Kind, decString(r.Trace))
	for i, in := range r.Inputs {
		if i > 24 {
			sb.WriteString("...")
			break
		}
		if i > 0 {
			sb.WriteString(" ")
		}
		fmt.Fprintf(&sb, "%s=%d", in.Label, int64(in.Value))
	}
	sb.WriteString("}")
	return sb.String()
}

// ---- native replay ----

type ReplayVector struct {
	Property string        `json:"property"`
	Harness  string        `json:"harness"`
	Expect   string        `json:"expect"`
	Detail   string        `json:"detail"`
	Where    string        `json:"where,omitempty"`
	Inputs   []ReplayInput `json:"inputs"`
	Thorough bool          `json:"thorough"`
	PkgDir   string        `json:"pkg_dir"`
	Path     string        `json:"decision_path"`
}

func writeReplay(prop string, hf HarnessFile, harness string, r *PathResult, thorough bool) (string, error) {
	rv := ReplayVector{Property: prop, Harness: harness, Expect: string(r.Outcome.Kind), Detail: r.Outcome.Msg, Where: r.Outcome.Where,
		Inputs: r.Inputs, Thorough: thorough, PkgDir: hf.PkgDir, Path: decString(r.Trace)}
	data, _ := json.MarshalIndent(rv, "", " ")
	sum := sha1.Sum(data)
	dir := filepath.Join(verifDir(), "replays", prop)
	os.MkdirAll(dir, 0o755)
	p := filepath.Join(dir, fmt.Sprintf("%s-%x.json", harness, sum[:4]))
	return p, os.WriteFile(p, data, 0o644)
}

// replayBins caches the compiled replay test binary per package directory for the duration of a run.
var (
	replayMu   sync.Mutex
	replayBins = map[string]string{}
	replayTmp  string
)

func cleanupReplay() {
	if replayTmp != "" {
		os.RemoveAll(replayTmp)
	}
}

func buildReplayBinary(hfs []HarnessFile, pkgDir string) (string, error) {
	replayMu.Lock()
	defer replayMu.Unlock()
	if b, ok := replayBins[pkgDir]; ok {
		return b, nil
	}
	if replayTmp == "" {
		t, err := os.MkdirTemp("", "verif-replay-")
		if err != nil {
			return "", err
		}
		replayTmp = t
	}
	tmp := filepath.Join(replayTmp, fmt.Sprintf("p%d", len(replayBins)))
	os.MkdirAll(tmp, 0o755)
	var names []string
	pkgName := ""
	for _, h := range hfs {
		if h.PkgDir != pkgDir {
			continue
		}
		src, _ := os.ReadFile(h.Path)
		if pkgName == "" {
			if mm := regexp.MustCompile(`(?m)^package\s+(\w+)`).FindSubmatch(src); mm != nil {
				pkgName = string(mm[1])
			}
		}
		for _, mm := range regexp.MustCompile(`(?m)^func (VH_\w+)\(\)`).FindAllSubmatch(src, -1) {
			names = append(names, string(mm[1]))
		}
	}
	var sb strings.Builder
	fmt.Fprintf(&sb, "//go:build verif\n\npackage %s\n\nimport (\n\t\"testing\"\n\t\"%s/zzverif/vrt\"\n)\n\nfunc TestVerifReplay(t *testing.T) {\n\tvrt.Run(map[string]func(){\n", pkgName, modPath)
	for _, n := range names {
		fmt.Fprintf(&sb, "\t\t%q: %s,\n", n, n)
	}
	sb.WriteString("\t})\n}\n")
	testFile := filepath.Join(tmp, "replay_test.go")
	os.WriteFile(testFile, []byte(sb.String()), 0o644)
	ov := map[string]string{}
	for _, h := range hfs {
		ov[h.Virtual] = h.Path
	}
	ov[filepath.Join(repoDir, "zzverif", "vrt", "vrt.go")] = filepath.Join(verifDir(), "vrt", "vrt.go")
	for _, vp := range virtualPkgs {
		if ents, err := os.ReadDir(filepath.Join(verifDir(), vp)); err == nil {
			for _, e := range ents {
				if strings.HasSuffix(e.Name(), ".go") {
					ov[filepath.Join(repoDir, "zzverif", vp, e.Name())] = filepath.Join(verifDir(), vp, e.Name())
				}
			}
		}
	}
	ov[filepath.Join(repoDir, pkgDir, "zz_verif_replay_test.go")] = testFile
	ovData, _ := json.Marshal(map[string]any{"Replace": ov})
	ovFile := filepath.Join(tmp, "overlay.json")
	os.WriteFile(ovFile, ovData, 0o644)
	bin := filepath.Join(tmp, "replay.test")
	cmd := exec.Command("go", "test", "-c", "-tags", "verif", "-vet=off", "-overlay", ovFile, "-o", bin, "./"+pkgDir)
	cmd.Dir = repoDir
	cmd.Env = goEnv()
	out, err := cmd.CombinedOutput()
	if err != nil {
		return "", fmt.Errorf("replay build failed: %v: %s", err, tail(string(out), 1500))
	}
	replayBins[pkgDir] = bin
	return bin, nil
}

// nativeReplay runs the replay vector against the compiled code. Returns (reproduced, observed outcome).
func nativeReplay(prop string, hfs []HarnessFile, vecPath string) (bool, string, error) {
	data, err := os.ReadFile(vecPath)
	if err != nil {
		return false, "", err
	}
	var rv ReplayVector
	if err := json.Unmarshal(data, &rv); err != nil {
		return false, "", err
	}
	bin, err := buildReplayBinary(hfs, rv.PkgDir)
	if err != nil {
		return false, "build-failed", err
	}
	tmo := "60s"
	switch OutcomeKind(rv.Expect) {
	case OutUnwind, OutDeadlock, OutLeak:
		tmo = "10s"
	}
	cmd := exec.Command(bin, "-test.run", "^TestVerifReplay$", "-test.timeout", tmo, "-test.count", "1")
	cmd.Dir = filepath.Join(repoDir, rv.PkgDir)
	cmd.Env = append(goEnv(), "VERIF_REPLAY="+vecPath)
	if tz := replayTZ(&rv); tz != "" {
		cmd.Env = append(cmd.Env, "TZ="+tz)
	}
	out, _ := cmd.CombinedOutput()
	text := string(out)
	observed := "no-outcome"
	if mm := regexp.MustCompile(`(?m)^VRT-OUTCOME: (.*)$`).FindStringSubmatch(text); mm != nil {
		observed = mm[1]
	} else if strings.Contains(text, "test timed out") {
		observed = "hang"
	} else if strings.Contains(text, "all goroutines are asleep") {
		observed = "deadlock"
	} else if mm := regexp.MustCompile(`(?m)^panic: (.*)$`).FindStringSubmatch(text); mm != nil {
		observed = "panic: " + mm[1]
	} else if strings.Contains(text, "fatal error:") {
		observed = "fatal: " + firstLineWith(text, "fatal error:")
	}
	repro := false
	switch OutcomeKind(rv.Expect) {
	case OutOK:
		repro = observed == "ok"
	case OutAssert:
		repro = observed == "assert:"+rv.Detail
	case OutPanic, OutCrash:
		// a panicking goroutine runs its deferred calls first (closing channels, ...), so the harness goroutine
		// may get to report something before the runtime kills the process: the crash message decides
		repro = strings.HasPrefix(observed, "panic:") || strings.HasPrefix(observed, "fatal:") ||
			regexp.MustCompile(`(?m)^panic: `).MatchString(text)
		if repro && !strings.HasPrefix(observed, "panic:") && !strings.HasPrefix(observed, "fatal:") {
			observed = "panic (after: " + observed + ")"
		}
	case OutUnwind:
		repro = observed == "hang" || strings.HasPrefix(observed, "fatal:") // runaway loop: timeout or OOM
	case OutDeadlock:
		repro = observed == "hang" || observed == "deadlock"
	case OutLeak:
		repro = strings.HasPrefix(observed, "leak:") || observed == "hang" || observed == "deadlock"
	}
	if os.Getenv("GOSYM_DEBUG") != "" {
		fmt.Fprintf(logw, "replay output:\n%s\n", tail(text, 3000))
	}
	return repro, observed, nil
}

func firstLineWith(text, sub string) string {
	sc := bufio.NewScanner(strings.NewReader(text))
	for sc.Scan() {
		if strings.Contains(sc.Text(), sub) {
			return sc.Text()
		}
	}
	return ""
}

func tail(s string, n int) string {
	if len(s) > n {
		return s[len(s)-n:]
	}
	return s
}

