package main

import (
	"fmt"
	"go/types"
	"strings"

	"golang.org/x/tools/go/ssa"
)

type intrinsic func(m *Machine, fr *frame, args []Value) Value

const vrtPath = "github.com/metrico/qryn/zzverif/vrt"

var intrinsics = map[string]intrinsic{}

// packages whose functions are no-ops returning zero values (logging, metrics)
var noopPkgPrefixes = []string{
	"github.com/metrico/qryn/writer/utils/logger",
	"github.com/metrico/qryn/reader/utils/logger",
	"github.com/metrico/qryn/writer/utils/stat",
	"github.com/prometheus/client_golang/",
	"github.com/sirupsen/logrus",
	"log",
	"runtime/debug",
}

var skipInitPkgs = map[string]bool{
	"runtime": true, "os": true, "syscall": true, "net": true, "net/http": true, "crypto/tls": true,
	"internal/poll": true, "internal/godebug": true, "reflect": true, "testing": true, "flag": true,
	"internal/cpu": true, "log": true, "sync": true,
	"github.com/sirupsen/logrus": true, "encoding/json": true, "math/rand": true, "crypto/rand": true,
}

func findIntrinsic(fn *ssa.Function) intrinsic {
	name := fn.String()
	if f, ok := intrinsics[name]; ok {
		return f
	}
	if o := fn.Origin(); o != nil && o != fn {
		if f, ok := intrinsics[o.String()]; ok {
			return f
		}
	}
	if fn.Pkg != nil {
		p := fn.Pkg.Pkg.Path()
		for _, pre := range noopPkgPrefixes {
			if p == pre || (strings.HasSuffix(pre, "/") && strings.HasPrefix(p, pre)) || strings.HasPrefix(p, pre+"/") {
				return noopIntrinsic(fn)
			}
		}
	} else if fn.Signature.Recv() != nil {
		// method wrappers of no-op packages
		rt := fn.Signature.Recv().Type()
		if p, ok := rt.(*types.Pointer); ok {
			rt = p.Elem()
		}
		if n, ok := rt.(*types.Named); ok && n.Obj().Pkg() != nil {
			p := n.Obj().Pkg().Path()
			for _, pre := range noopPkgPrefixes {
				if p == pre || (strings.HasSuffix(pre, "/") && strings.HasPrefix(p, pre)) || strings.HasPrefix(p, pre+"/") {
					return noopIntrinsic(fn)
				}
			}
		}
	}
	return nil
}

func noopIntrinsic(fn *ssa.Function) intrinsic {
	return func(m *Machine, fr *frame, args []Value) Value {
		m.stubs["noop:"+pkgOf(fn)]++
		return zeroResults(fn)
	}
}

func pkgOf(fn *ssa.Function) string {
	if fn.Pkg != nil {
		return fn.Pkg.Pkg.Path()
	}
	return fn.String()
}

func reg(name string, f intrinsic) { intrinsics[name] = f }

func argStr(m *Machine, v Value) string {
	s, ok := v.(Str).Concrete()
	if !ok {
		m.end(OutInternal, "vrt label must be concrete")
	}
	return s
}

func widthOfKind(kind string) (int, bool) {
	switch kind {
	case "int64", "int":
		return 64, true
	case "uint64", "uint":
		return 64, false
	case "int32":
		return 32, true
	case "uint32":
		return 32, false
	case "int16":
		return 16, true
	case "uint16":
		return 16, false
	case "int8":
		return 8, true
	case "byte", "uint8":
		return 8, false
	}
	panic(kind)
}

func init() {
	for _, k := range []struct{ fn, kind string }{
		{"Int64", "int64"}, {"Int", "int"}, {"Uint64", "uint64"}, {"Uint", "uint"}, {"Int32", "int32"}, {"Uint32", "uint32"},
		{"Int16", "int16"}, {"Uint16", "uint16"}, {"Int8", "int8"}, {"Byte", "byte"},
	} {
		kind := k.kind
		reg(vrtPath+"."+k.fn, func(m *Machine, fr *frame, args []Value) Value {
			w, _ := widthOfKind(kind)
			return m.path.NewInput(argStr(m, args[0]), kind, SBV(w)).T
		})
	}
	reg(vrtPath+".Bool", func(m *Machine, fr *frame, args []Value) Value {
		return m.path.NewInput(argStr(m, args[0]), "bool", SBool).T
	})
	reg(vrtPath+".Float64", func(m *Machine, fr *frame, args []Value) Value {
		return m.path.NewInput(argStr(m, args[0]), "float64", SFP(64)).T
	})
	reg(vrtPath+".Len", func(m *Machine, fr *frame, args []Value) Value {
		lo, hi := m.concInt(args[1]), m.concInt(args[2])
		in := m.path.NewInput(argStr(m, args[0]), "len", SBV(64))
		in.Lo, in.Hi = lo, hi
		m.path.assert(And(BVCmp(OpBVSle, BV(64, uint64(lo)), in.T), BVCmp(OpBVSle, in.T, BV(64, uint64(hi)))))
		return BV(64, m.concretize(in.T))
	})
	reg(vrtPath+".Choice", func(m *Machine, fr *frame, args []Value) Value {
		n := m.concInt(args[1])
		return BV(64, uint64(m.choose(argStr(m, args[0]), int(n))))
	})
	reg(vrtPath+".Bytes", func(m *Machine, fr *frame, args []Value) Value {
		n := int(m.concInt(args[1]))
		label := argStr(m, args[0])
		out := make([]Value, n)
		for i := range out {
			out[i] = m.path.NewInput(label, "byte", SBV(8)).T
		}
		return out
	})
	reg(vrtPath+".String", func(m *Machine, fr *frame, args []Value) Value {
		n := int(m.concInt(args[1]))
		label := argStr(m, args[0])
		out := make([]*Term, n)
		for i := range out {
			out[i] = m.path.NewInput(label, "byte", SBV(8)).T
		}
		if n == 0 {
			return Str{}
		}
		return Str{B: out}
	})
	reg(vrtPath+".Assume", func(m *Machine, fr *frame, args []Value) Value {
		c := args[0].(*Term)
		if c.IsConst() {
			if c.C == 0 {
				m.end(OutAssumeFalse, "assume false")
			}
			return nil
		}
		// an assumption is a constraint, not a fork
		if len(m.path.trace) >= len(m.path.prefix) {
			if m.path.check(c) == "unsat" {
				m.end(OutAssumeFalse, "assumption infeasible")
			}
		}
		m.path.assert(c)
		return nil
	})
	reg(vrtPath+".Assert", func(m *Machine, fr *frame, args []Value) Value {
		c := args[0].(*Term)
		label := argStr(m, args[1])
		m.path.reach["assert:"+label]++
		if !m.decide(c) {
			panic(pathEnd{Outcome{Kind: OutAssert, Msg: label, Where: m.pos(fr.callpos)}})
		}
		return nil
	})
	reg(vrtPath+".Reach", func(m *Machine, fr *frame, args []Value) Value {
		m.path.reach[argStr(m, args[0])]++
		return nil
	})
	reg(vrtPath+".Note", func(m *Machine, fr *frame, args []Value) Value {
		m.path.notes = append(m.path.notes, showValue(args[0]))
		return nil
	})
	reg(vrtPath+".Unwind", func(m *Machine, fr *frame, args []Value) Value {
		m.unwind = int(m.concInt(args[0]))
		return nil
	})
	reg(vrtPath+".ConcreteUnwind", func(m *Machine, fr *frame, args []Value) Value {
		m.cunwind = int(m.concInt(args[0]))
		return nil
	})
	reg(vrtPath+".Steps", func(m *Machine, fr *frame, args []Value) Value {
		m.maxSteps = int(m.concInt(args[0]))
		return nil
	})
	reg(vrtPath+".CheckLeaks", func(m *Machine, fr *frame, args []Value) Value { m.checkLeak = true; return nil })
	reg(vrtPath+".SchedSymbolic", func(m *Machine, fr *frame, args []Value) Value { m.schedSym = true; return nil })
	reg(vrtPath+".MapOrderMatters", func(m *Machine, fr *frame, args []Value) Value { m.mapOrder = true; return nil })
	reg(vrtPath+".Yield", func(m *Machine, fr *frame, args []Value) Value { m.yield(); return nil })
	reg(vrtPath+".Symbolic", func(m *Machine, fr *frame, args []Value) Value { return TTrue })
	reg(vrtPath+".IsConcrete", func(m *Machine, fr *frame, args []Value) Value {
		// IsConcrete(x any): true if the scalar/string is fully concrete
		iv := args[0].(Iface)
		switch v := iv.V.(type) {
		case *Term:
			return BoolT(v.IsConst())
		case Str:
			_, ok := v.Concrete()
			return BoolT(ok)
		}
		return TTrue
	})
	reg(vrtPath+".KnownFinding", func(m *Machine, fr *frame, args []Value) Value {
		id := argStr(m, args[0])
		region := args[1].(*Term)
		if !m.known[id] {
			return TFalse
		}
		if m.knownMode == "only:"+id {
			// demonstration pass: follow the path through the region (it must be entered at least once)
			if m.decide(region) {
				m.path.knownHit[id] = true
			}
			return TFalse
		}
		if m.decide(region) {
			m.path.knownHit[id] = true
			panic(pathEnd{Outcome{Kind: OutKnown, Msg: id}})
		}
		return TFalse
	})
	reg(vrtPath+".All", func(m *Machine, fr *frame, args []Value) Value {
		r := TTrue
		for _, c := range args[0].([]Value) {
			r = And(r, c.(*Term))
		}
		return r
	})
	reg(vrtPath+".Any", func(m *Machine, fr *frame, args []Value) Value {
		r := TFalse
		for _, c := range args[0].([]Value) {
			r = Or(r, c.(*Term))
		}
		return r
	})
	reg(vrtPath+".Outcome", func(m *Machine, fr *frame, args []Value) Value { return nil })
	reg(vrtPath+".Cleanup", func(m *Machine, fr *frame, args []Value) Value { return nil })
	// Crashes(f): runs f in a fresh goroutine context; the engine reports crash if it panics unrecovered.
}

// ---- helpers shared by stdlib models ----

func termOf(v Value) *Term { return v.(*Term) }

func mkErr(m *Machine, msg Str) Value {
	// *errors.errorString{s}
	var cell Value = Struct{msg}
	return Iface{T: m.P.errStr, V: &cell}
}

func sliceOfStr(s Str) []Value {
	bs := s.Bytes()
	out := make([]Value, len(bs))
	for i, b := range bs {
		out[i] = b
	}
	return out
}

func strOfSlice(xs []Value) Str {
	ts := make([]*Term, len(xs))
	for i, v := range xs {
		ts[i] = v.(*Term)
	}
	if len(ts) == 0 {
		return Str{}
	}
	return StrFromTerms(ts)
}

var _ = fmt.Sprint
