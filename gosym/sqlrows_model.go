package main

import (
	"go/token"
	"go/types"

	"golang.org/x/tools/go/ssa"
)

// database/sql result sets: vsql.Rows(cols, data) creates a *sql.Rows whose methods are modelled here
// (the scripted driver of the native side is not executed). Cell values keep their Go type and may be
// symbolic; Scan follows database/sql's convertAssign for the combinations the reader uses (same type,
// string <-> []byte, anything into *any) and reports everything else as unsupported.

const vsqlPath = "github.com/metrico/qryn/zzverif/vsql"

func (m *Machine) sqlRowsOf(v Value) *sqlRows {
	p, _ := v.(*Value)
	if p == nil {
		m.rtPanic("invalid memory address or nil pointer dereference")
	}
	r := m.rows[p]
	if r == nil {
		m.unsupported("*sql.Rows that was not created by vsql.Rows")
	}
	return r
}

func isByteSlice(t types.Type) bool {
	s, ok := t.Underlying().(*types.Slice)
	if !ok {
		return false
	}
	b, ok := s.Elem().Underlying().(*types.Basic)
	return ok && b.Kind() == types.Uint8
}

func isStringType(t types.Type) bool {
	b, ok := t.Underlying().(*types.Basic)
	return ok && b.Kind() == types.String
}

func init() {
	mkRows := func(m *Machine, fr *frame, a []Value) Value {
		r := &sqlRows{errAt: -1}
		if len(a) > 2 {
			r.errAt = int(m.concInt(a[2]))
		}
		for _, c := range a[0].([]Value) {
			s, ok := c.(Str).Concrete()
			if !ok {
				m.unsupported("symbolic column name")
			}
			r.cols = append(r.cols, s)
		}
		for _, row := range a[1].([]Value) {
			cells := row.([]Value)
			if len(cells) != len(r.cols) {
				m.end(OutInternal, "vsql.Rows: row with %d cells for %d columns", len(cells), len(r.cols))
			}
			r.rows = append(r.rows, append([]Value(nil), cells...))
		}
		rt := m.P.pkgs["database/sql"].Type("Rows").Object().Type()
		var cell Value = zero(rt)
		m.rows[&cell] = r
		m.stubs["model:database/sql.Rows over scripted rows (Next/Scan/Close/Err/Columns)"]++
		return &cell
	}
	reg(vsqlPath+".Rows", mkRows)
	reg(vsqlPath+".RowsFailingAt", mkRows)
	reg("(*database/sql.Rows).Next", func(m *Machine, fr *frame, a []Value) Value {
		r := m.sqlRowsOf(a[0])
		if r.closed {
			return TFalse
		}
		if r.errAt >= 0 && r.pos == r.errAt {
			r.closed, r.failed = true, true
			return TFalse
		}
		if r.pos < len(r.rows) {
			r.pos++
			return TTrue
		}
		r.closed = true
		return TFalse
	})
	reg("(*database/sql.Rows).Close", func(m *Machine, fr *frame, a []Value) Value {
		m.sqlRowsOf(a[0]).closed = true
		return Iface{}
	})
	reg("(*database/sql.Rows).Err", func(m *Machine, fr *frame, a []Value) Value {
		if m.sqlRowsOf(a[0]).failed {
			return mkErr(m, CStr("unexpected EOF"))
		}
		return Iface{}
	})
	reg("(*database/sql.Rows).Columns", func(m *Machine, fr *frame, a []Value) Value {
		r := m.sqlRowsOf(a[0])
		var cols []Value
		for _, c := range r.cols {
			cols = append(cols, CStr(c))
		}
		return Tuple{cols, Iface{}}
	})
	reg("(*database/sql.Rows).Scan", func(m *Machine, fr *frame, a []Value) Value {
		r := m.sqlRowsOf(a[0])
		dests := a[1].([]Value)
		if r.closed {
			return mkErr(m, CStr("sql: Rows are closed"))
		}
		if r.pos == 0 {
			return mkErr(m, CStr("sql: Scan called without calling Next"))
		}
		row := r.rows[r.pos-1]
		if len(dests) != len(row) {
			return mkErr(m, CStr("sql: expected a different number of destination arguments in Scan"))
		}
		for i, d := range dests {
			di := d.(Iface)
			pt, ok := di.T.Underlying().(*types.Pointer)
			if !ok {
				return mkErr(m, CStr("sql: Scan error: destination not a pointer"))
			}
			dp, _ := di.V.(*Value)
			if dp == nil {
				return mkErr(m, CStr("sql: Scan error: destination pointer is nil"))
			}
			src := row[i].(Iface)
			et := pt.Elem()
			switch {
			case types.IsInterface(et):
				v := src
				if src.T != nil && isByteSlice(src.T) {
					v = Iface{T: src.T, V: append([]Value(nil), src.V.([]Value)...)}
				}
				*dp = v
			case src.T == nil:
				return mkErr(m, CStr("sql: Scan error: converting NULL to a non-pointer destination is unsupported"))
			case types.Identical(et, src.T):
				if isByteSlice(et) {
					*dp = append([]Value(nil), src.V.([]Value)...)
				} else {
					*dp = copyVal(src.V)
				}
			case isStringType(et) && isByteSlice(src.T):
				*dp = strOfSlice(src.V.([]Value))
			case isByteSlice(et) && isStringType(src.T):
				*dp = sliceOfStr(src.V.(Str))
			case isStringType(et) && isStringType(src.T):
				*dp = src.V
			case isIntegerType(et) && isIntegerType(src.T):
				// database/sql converts through the decimal text and fails when the value does not fit
				sv := src.V.(*Term)
				sw, ss := intWidthSigned(src.T)
				dw, ds := intWidthSigned(et)
				if !(dw > sw || (dw == sw && ds == ss)) || (ss && !ds) {
					m.unsupported("sql.Rows.Scan of %s into *%s (possible range error)", src.T, et)
				}
				if ss {
					*dp = Sext(sv, dw)
				} else {
					*dp = Zext(sv, dw)
				}
			default:
				m.unsupported("sql.Rows.Scan of %s into *%s", src.T, et)
			}
		}
		return Iface{}
	})
}

// ---- encoding/json.Marshal(string): the library's own escaping routine (appendString, executed from SSA)
// over the two safe-character tables, which are filled here because encoding/json's initialiser is not run.

func (m *Machine) jsonAppendString() *ssa.Function {
	if f, ok := m.extra["json.appendString"].(*ssa.Function); ok {
		return f
	}
	pkg := m.P.pkgs["encoding/json"]
	if pkg == nil {
		m.unsupported("encoding/json not loaded")
	}
	pkg.Build()
	var found *ssa.Function
	if se := pkg.Func("stringEncoder"); se != nil {
		for _, b := range se.Blocks {
			for _, in := range b.Instrs {
				c, ok := in.(*ssa.Call)
				if !ok {
					continue
				}
				f := c.Call.StaticCallee()
				if f == nil || f.Origin() == nil || f.Origin().Name() != "appendString" || len(f.TypeArgs()) != 1 {
					continue
				}
				if isStringType(f.TypeArgs()[0]) {
					found = f
				}
			}
		}
	}
	if found == nil {
		m.unsupported("encoding/json.appendString[string] not found")
	}
	for name, html := range map[string]bool{"safeSet": false, "htmlSafeSet": true} {
		cell := m.global(pkg.Var(name))
		arr := make(Array, 128)
		for b := 0; b < 128; b++ {
			safe := b >= 0x20 && b != '"' && b != '\\' && (!html || (b != '<' && b != '>' && b != '&'))
			arr[b] = BoolT(safe)
		}
		*cell = arr
	}
	m.extra["json.appendString"] = found
	return found
}

func init() {
	reg("encoding/json.Marshal", func(m *Machine, fr *frame, a []Value) Value {
		v := a[0].(Iface)
		if v.T == nil || !isStringType(v.T) {
			return fallThrough
		}
		m.stubs["model:json.Marshal(string) = encoding/json.appendString executed from SSA (escapeHTML)"]++
		out := m.call(fr, token.NoPos, m.jsonAppendString(), []Value{[]Value(nil), v.V, TTrue})
		return Tuple{out, Iface{}}
	})
}

func isIntegerType(t types.Type) bool {
	b, ok := t.Underlying().(*types.Basic)
	return ok && b.Info()&types.IsInteger != 0
}

func intWidthSigned(t types.Type) (int, bool) {
	b := t.Underlying().(*types.Basic)
	signed := b.Info()&types.IsUnsigned == 0
	switch b.Kind() {
	case types.Int8, types.Uint8:
		return 8, signed
	case types.Int16, types.Uint16:
		return 16, signed
	case types.Int32, types.Uint32:
		return 32, signed
	}
	return 64, signed
}
