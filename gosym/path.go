package main

// Path: one execution of a harness under a decision prefix. Forking is by re-execution.

import (
	"fmt"
	"os"
	"strings"
)

type Dec struct {
	K byte   // 'b' branch, 'c' concretise (B: equal to V / not equal), 'f' forced branch
	B bool
	V uint64
}

func decString(ds []Dec) string {
	var sb strings.Builder
	for _, d := range ds {
		switch d.K {
		case 'b':
			if d.B {
				sb.WriteByte('T')
			} else {
				sb.WriteByte('F')
			}
		case 'f':
			if d.B {
				sb.WriteByte('t')
			} else {
				sb.WriteByte('f')
			}
		case 'c':
			if d.B {
				fmt.Fprintf(&sb, "[=%d]", d.V)
			} else {
				fmt.Fprintf(&sb, "[!%d]", d.V)
			}
		}
	}
	return sb.String()
}

// WorkItem is a path prefix to explore, with a model of its path condition when one is known.
type WorkItem struct {
	Prefix []Dec
	Model  map[string]uint64
}

type InputRec struct {
	Label string
	Kind  string // int64, uint64, byte, bool, choice, len, ...
	T     *Term
	Lo,Hi int64 // for choice/len
}

type OutcomeKind string

const (
	OutOK          OutcomeKind = "ok"
	OutAssumeFalse OutcomeKind = "assume-false"
	OutAssert      OutcomeKind = "assert"
	OutPanic       OutcomeKind = "panic"
	OutCrash       OutcomeKind = "crash"
	OutUnwind      OutcomeKind = "unwind"
	OutDeadlock    OutcomeKind = "deadlock"
	OutLeak        OutcomeKind = "leak"
	OutUnsupported OutcomeKind = "unsupported"
	OutBudget      OutcomeKind = "budget"
	OutInfeasible  OutcomeKind = "infeasible"
	OutInternal    OutcomeKind = "internal"
	OutKnown       OutcomeKind = "known-region"
)

type Outcome struct {
	Kind  OutcomeKind
	Msg   string
	Where string
}

func (o Outcome) IsViolation() bool {
	switch o.Kind {
	case OutAssert, OutPanic, OutCrash, OutUnwind, OutDeadlock, OutLeak:
		return true
	}
	return false
}

type Path struct {
	prefix  []Dec
	trace   []Dec
	pc      []*Term
	em      *Emitter
	solver  *Solver
	inputs  []*InputRec
	labelN  map[string]int
	newWork []WorkItem
	reach   map[string]int
	unknowns int
	symbolicObligations int // decisions whose condition was symbolic
	knownHit map[string]bool // known-finding ids whose region was entered (this path excluded them)
	notes   []string
	czN     int
	ranges  map[string]ival
	ivalMemo map[*Term]ival
	quickHits int
	auxVars []*Term
	model   map[string]uint64 // a model of the current pc (nil = none cached)
	evalMemo map[*Term]evalRes
	modelHits, modelMisses int
}

func NewPath(w WorkItem, s *Solver) *Path {
	p := &Path{prefix: w.Prefix, solver: s, em: NewEmitter(), labelN: map[string]int{}, reach: map[string]int{}, knownHit: map[string]bool{}}
	if w.Model != nil {
		p.model = map[string]uint64{}
		for k, v := range w.Model {
			p.model[k] = v
		}
	}
	s.Reset()
	return p
}

func (p *Path) queue(d Dec, model map[string]uint64) {
	sib := append(append([]Dec(nil), p.trace...), d)
	p.newWork = append(p.newWork, WorkItem{Prefix: sib, Model: model})
}

func (p *Path) assert(t *Term) {
	if t.IsConst() {
		return
	}
	if p.model != nil {
		if v, ok := p.evalUnder(t); !ok || v != 1 {
			if os.Getenv("GOSYM_DEBUG") != "" {
				fmt.Fprintf(logw, "model invalidated by assert: ok=%v v=%d term=%s model=%v\n", ok, v, NewEmitter().Ref(t), p.model)
			}
			p.setModel(nil)
		}
	}
	p.pc = append(p.pc, t)
	p.learn(t, true)
	ref := p.em.Ref(t)
	p.solver.Send(p.em.Flush())
	p.solver.Send("(assert " + ref + ")\n")
}

// check returns sat/unsat/unknown for pc ∧ t.
func (p *Path) check(t *Term) string {
	if t.IsConst() {
		if t.C == 1 {
			return "sat"
		}
		return "unsat"
	}
	ref := p.em.Ref(t)
	p.solver.Send(p.em.Flush())
	p.solver.Send("(push 1)\n(assert " + ref + ")\n")
	r := p.solver.Check()
	p.solver.Send("(pop 1)\n")
	if r == "unknown" {
		// any unknown makes the harness inconclusive: end the path here instead of piling up timeouts
		p.unknowns++
		panic(pathEnd{Outcome{Kind: OutUnsupported, Msg: "solver unknown/timeout - inconclusive at this bound"}})
	}
	return r
}

type evalRes struct {
	v  uint64
	ok bool
}

// evalUnder evaluates t under the cached model (memoised per model).
func (p *Path) evalUnder(t *Term) (uint64, bool) {
	if p.model == nil {
		return 0, false
	}
	if p.evalMemo == nil {
		p.evalMemo = map[*Term]evalRes{}
	}
	return evalMemo(t, p.model, p.evalMemo)
}

func (p *Path) setModel(m map[string]uint64) {
	p.model = m
	p.evalMemo = nil
}

// checkWithModel is check() that also fetches a model on sat.
func (p *Path) checkWithModel(t *Term) (string, map[string]uint64) {
	if t.IsConst() {
		if t.C == 1 {
			return "sat", nil
		}
		return "unsat", nil
	}
	ref := p.em.Ref(t)
	p.solver.Send(p.em.Flush())
	p.solver.Send("(push 1)\n(assert " + ref + ")\n")
	r := p.solver.Check()
	var model map[string]uint64
	if r == "sat" {
		model = p.solver.GetValues(p.inputVars())
	}
	p.solver.Send("(pop 1)\n")
	if r == "unknown" {
		p.unknowns++
		if p.solver.Dead() {
			panic(pathEnd{Outcome{Kind: OutUnsupported, Msg: "solver timeout (watchdog) - inconclusive at this bound"}})
		}
	}
	return r, model
}

func (p *Path) inputVars() []*Term {
	var vars []*Term
	for _, in := range p.inputs {
		vars = append(vars, in.T)
	}
	for _, v := range p.auxVars {
		vars = append(vars, v)
	}
	return vars
}

// Decide forks on a symbolic boolean.
func (p *Path) Decide(cond *Term) bool {
	if cond.IsConst() {
		return cond.C == 1
	}
	p.symbolicObligations++
	if len(p.trace) < len(p.prefix) {
		d := p.prefix[len(p.trace)]
		if d.K != 'b' && d.K != 'f' {
			panic(pathEnd{Outcome{Kind: OutInternal, Msg: "prefix mismatch: expected branch decision, have " + string(d.K)}})
		}
		p.trace = append(p.trace, d)
		if d.K == 'b' {
			if d.B {
				p.assert(cond)
			} else {
				p.assert(Not(cond))
			}
		}
		return d.B
	}
	// frontier. Interval reasoning settles many conditions (digits, ASCII ranges, small counters) outright.
	if v, ok := p.quickBool(cond); ok {
		p.quickHits++
		p.trace = append(p.trace, Dec{K: 'f', B: v})
		return v
	}
	// Use the cached model of pc to get one direction for free.
	if v, ok := p.evalUnder(cond); ok {
		p.modelHits++
		dir := v == 1
		other := cond
		if dir {
			other = Not(cond)
		}
		r, om := p.checkWithModel(other)
		if r == "unsat" {
			p.trace = append(p.trace, Dec{K: 'f', B: dir})
			return dir
		}
		// both feasible: take the direction the model supports, queue the other
		p.queue(Dec{K: 'b', B: !dir}, om)
		p.trace = append(p.trace, Dec{K: 'b', B: dir})
		if dir {
			p.assert(cond)
		} else {
			p.assert(Not(cond))
		}
		return dir
	}
	p.modelMisses++
	rt, mt := p.checkWithModel(cond)
	if rt == "unsat" {
		p.trace = append(p.trace, Dec{K: 'f', B: false})
		return false
	}
	rf, mf := p.checkWithModel(Not(cond))
	if rf == "unsat" {
		p.trace = append(p.trace, Dec{K: 'f', B: true})
		if mt != nil {
			p.setModel(mt)
		}
		return true
	}
	p.queue(Dec{K: 'b', B: false}, mf)
	p.trace = append(p.trace, Dec{K: 'b', B: true})
	p.assert(cond)
	if mt != nil {
		p.setModel(mt)
	}
	return true
}

// Concretize enumerates the feasible values of t by forking.
func (p *Path) Concretize(t *Term) uint64 {
	if t.IsConst() {
		return t.C
	}
	p.symbolicObligations++
	for {
		if len(p.trace) < len(p.prefix) {
			d := p.prefix[len(p.trace)]
			if d.K != 'c' {
				panic(pathEnd{Outcome{Kind: OutInternal, Msg: "prefix mismatch: expected concretise decision"}})
			}
			p.trace = append(p.trace, d)
			c := &Term{Op: OpConst, Sort: t.Sort, C: d.V}
			if d.B {
				p.assert(Eq(t, c))
				return d.V
			}
			p.assert(Not(Eq(t, c)))
			continue
		}
		// frontier: the cached model gives a feasible value for free
		if v, ok := p.evalUnder(t); ok {
			c := &Term{Op: OpConst, Sort: t.Sort, C: v}
			other, om := p.checkWithModel(Not(Eq(t, c)))
			if other != "unsat" {
				p.queue(Dec{K: 'c', B: false, V: v}, om)
			}
			p.trace = append(p.trace, Dec{K: 'c', B: true, V: v})
			p.assert(Eq(t, c))
			return v
		}
		// ask the solver for a model value
		cz := t
		if t.Op != OpVar {
			p.czN++
			cz = Var(fmt.Sprintf("cz!%d", p.czN), t.Sort)
			p.auxVars = append(p.auxVars, cz)
			p.assert(Eq(cz, t))
		} else {
			p.em.Ref(t)
			p.solver.Send(p.em.Flush())
		}
		r := p.solver.Check()
		if r != "sat" {
			if r == "unknown" {
				p.unknowns++
				panic(pathEnd{Outcome{Kind: OutUnsupported, Msg: "solver unknown while concretising"}})
			}
			panic(pathEnd{Outcome{Kind: OutInfeasible}})
		}
		full := p.solver.GetValues(p.inputVars())
		v, ok := full[cz.Name]
		if ok {
			p.setModel(full)
		}
		if !ok {
			panic(pathEnd{Outcome{Kind: OutInternal, Msg: "no model value for concretise"}})
		}
		c := &Term{Op: OpConst, Sort: t.Sort, C: v}
		other, om := p.checkWithModel(Not(Eq(t, c)))
		if other != "unsat" {
			p.queue(Dec{K: 'c', B: false, V: v}, om)
		}
		p.trace = append(p.trace, Dec{K: 'c', B: true, V: v})
		p.assert(Eq(t, c))
		return v
	}
}

// Model returns the values of all inputs on the current path (nil if the pc is not sat).
func (p *Path) Model() (map[string]uint64, string) {
	if p.model != nil {
		return p.model, "sat"
	}
	r := p.solver.Check()
	if r != "sat" {
		return nil, r
	}
	var vars []*Term
	for _, in := range p.inputs {
		if in.T != nil && in.T.Op == OpVar {
			vars = append(vars, in.T)
		}
	}
	m := p.solver.GetValues(vars)
	return m, "sat"
}

func (p *Path) NewInput(label, kind string, s Sort) *InputRec {
	n := p.labelN[label]
	p.labelN[label] = n + 1
	name := fmt.Sprintf("%s#%d", label, n)
	in := &InputRec{Label: label, Kind: kind, T: Var(name, s)}
	p.inputs = append(p.inputs, in)
	if p.model != nil {
		if _, have := p.model[name]; !have {
			p.model[name] = 0
		}
	}
	p.em.Ref(in.T)
	p.solver.Send(p.em.Flush())
	return in
}

type pathEnd struct{ o Outcome }
type killSig struct{}

// NewAux creates an engine-internal variable (not part of the replay vector).
func (p *Path) NewAux(label string, s Sort) *Term {
	p.czN++
	v := Var(fmt.Sprintf("%s!%d", label, p.czN), s)
	p.auxVars = append(p.auxVars, v)
	if p.model != nil {
		p.model[v.Name] = 0
	}
	p.em.Ref(v)
	p.solver.Send(p.em.Flush())
	return v
}
