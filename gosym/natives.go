package main

// Native thunks: library objects kept as opaque Go values and called natively on concrete arguments.

import (
	"fmt"
	"go/token"
	"regexp"
)

func strList(ss []string) Value {
	if ss == nil {
		return []Value(nil)
	}
	out := make([]Value, len(ss))
	for i, s := range ss {
		out[i] = CStr(s)
	}
	return out
}

func intList(is []int) Value {
	if is == nil {
		return []Value(nil)
	}
	out := make([]Value, len(is))
	for i, s := range is {
		out[i] = BV(64, uint64(int64(s)))
	}
	return out
}

func (m *Machine) concStr(v Value, what string) string {
	s, ok := v.(Str).Concrete()
	if !ok {
		m.unsupported("%s with symbolic string argument", what)
	}
	return s
}

func reOf(m *Machine, v Value) *regexp.Regexp {
	n, ok := v.(*Native)
	if !ok || n == nil {
		m.rtPanic("invalid memory address or nil pointer dereference (nil *regexp.Regexp)")
	}
	return n.V.(*regexp.Regexp)
}

const sanitizePattern = "(^[^a-zA-Z_]|[^a-zA-Z0-9_])"

// sanitizeModel is the per-byte model of ReplaceAllString(sanitizePattern, s, "_") for ASCII input.
func sanitizeModel(m *Machine, s Str) Str {
	bs := s.Bytes()
	out := make([]*Term, len(bs))
	for i, b := range bs {
		if !b.IsConst() {
			// the model is exact only for ASCII; non-ASCII symbolic bytes are outside the harness bounds
			if m.decide(BVCmp(OpBVUle, BV(8, 0x80), b)) {
				m.unsupported("sanitize regexp on symbolic non-ASCII byte")
			}
		} else if b.C >= 0x80 {
			m.unsupported("sanitize model on non-ASCII byte")
		}
		in := func(lo, hi byte) *Term {
			return And(BVCmp(OpBVUle, BV(8, uint64(lo)), b), BVCmp(OpBVUle, b, BV(8, uint64(hi))))
		}
		alpha := Or(Or(in('a', 'z'), in('A', 'Z')), Eq(b, BV(8, '_')))
		ok := alpha
		if i > 0 {
			ok = Or(alpha, in('0', '9'))
		}
		out[i] = Ite(ok, b, BV(8, '_'))
	}
	if len(out) == 0 {
		return Str{}
	}
	return StrFromTerms(out)
}

func init() {
	compile := func(must bool) intrinsic {
		return func(m *Machine, fr *frame, a []Value) Value {
			pat := m.concStr(a[0], "regexp.Compile")
			re, err := regexp.Compile(pat)
			if err != nil {
				if must {
					panic(targetPanic{Iface{T: m.P.rtErr, V: CStr("regexp: Compile: " + err.Error())}})
				}
				return Tuple{(*Native)(nil), mkErr(m, CStr(err.Error()))}
			}
			if must {
				return &Native{V: re}
			}
			return Tuple{&Native{V: re}, Iface{}}
		}
	}
	reg("regexp.MustCompile", compile(true))
	reg("regexp.Compile", compile(false))
	reg("regexp.QuoteMeta", func(m *Machine, fr *frame, a []Value) Value {
		return CStr(regexp.QuoteMeta(m.concStr(a[0], "regexp.QuoteMeta")))
	})
	reg("regexp.MatchString", func(m *Machine, fr *frame, a []Value) Value {
		ok, err := regexp.MatchString(m.concStr(a[0], "regexp.MatchString"), m.concStr(a[1], "regexp.MatchString"))
		if err != nil {
			return Tuple{TFalse, mkErr(m, CStr(err.Error()))}
		}
		return Tuple{BoolT(ok), Iface{}}
	})
	reg("(*regexp.Regexp).ReplaceAllString", func(m *Machine, fr *frame, a []Value) Value {
		re := reOf(m, a[0])
		if _, ok := a[1].(Str).Concrete(); !ok && re.String() == sanitizePattern {
			if r, ok := a[2].(Str).Concrete(); ok && r == "_" {
				m.stubs["model:sanitizeRe per-byte (ASCII)"]++
				return sanitizeModel(m, a[1].(Str))
			}
		}
		// a pattern that is one character class (or one literal byte) replaced by one plain byte: byte-wise
		// ite over symbolic ASCII text
		if _, ok := a[1].(Str).Concrete(); !ok {
			if r, ok := a[2].(Str).Concrete(); ok && len(r) == 1 && r[0] != '$' {
				if out, ok := m.symReplaceClass(re, a[1].(Str), r[0]); ok {
					return out
				}
			}
		}
		return CStr(re.ReplaceAllString(m.concStr(a[1], "Regexp.ReplaceAllString"), m.concStr(a[2], "Regexp.ReplaceAllString")))
	})
	reg("(*regexp.Regexp).ReplaceAllLiteralString", func(m *Machine, fr *frame, a []Value) Value {
		return CStr(reOf(m, a[0]).ReplaceAllLiteralString(m.concStr(a[1], "Regexp.ReplaceAllLiteralString"), m.concStr(a[2], "Regexp.ReplaceAllLiteralString")))
	})
	reg("(*regexp.Regexp).ReplaceAllStringFunc", func(m *Machine, fr *frame, a []Value) Value {
		re := reOf(m, a[0])
		return CStr(re.ReplaceAllStringFunc(m.concStr(a[1], "Regexp.ReplaceAllStringFunc"), func(s string) string {
			r := m.call(fr, token.NoPos, a[2], []Value{CStr(s)})
			return m.concStr(r, "ReplaceAllStringFunc callback result")
		}))
	})
	reg("(*regexp.Regexp).MatchString", func(m *Machine, fr *frame, a []Value) Value {
		return m.symMatch(reOf(m, a[0]), a[1].(Str), "Regexp.MatchString")
	})
	reg("(*regexp.Regexp).Match", func(m *Machine, fr *frame, a []Value) Value {
		return m.symMatch(reOf(m, a[0]), strOfSlice(a[1].([]Value)), "Regexp.Match")
	})
	reg("(*regexp.Regexp).FindString", func(m *Machine, fr *frame, a []Value) Value {
		return CStr(reOf(m, a[0]).FindString(m.concStr(a[1], "Regexp.FindString")))
	})
	reg("(*regexp.Regexp).FindStringIndex", func(m *Machine, fr *frame, a []Value) Value {
		return intList(reOf(m, a[0]).FindStringIndex(m.concStr(a[1], "Regexp.FindStringIndex")))
	})
	reg("(*regexp.Regexp).FindStringSubmatch", func(m *Machine, fr *frame, a []Value) Value {
		return strList(reOf(m, a[0]).FindStringSubmatch(m.concStr(a[1], "Regexp.FindStringSubmatch")))
	})
	reg("(*regexp.Regexp).FindStringSubmatchIndex", func(m *Machine, fr *frame, a []Value) Value {
		return intList(reOf(m, a[0]).FindStringSubmatchIndex(m.concStr(a[1], "Regexp.FindStringSubmatchIndex")))
	})
	reg("(*regexp.Regexp).FindAllString", func(m *Machine, fr *frame, a []Value) Value {
		return strList(reOf(m, a[0]).FindAllString(m.concStr(a[1], "Regexp.FindAllString"), int(m.concInt(a[2]))))
	})
	reg("(*regexp.Regexp).FindAllStringSubmatch", func(m *Machine, fr *frame, a []Value) Value {
		res := reOf(m, a[0]).FindAllStringSubmatch(m.concStr(a[1], "Regexp.FindAllStringSubmatch"), int(m.concInt(a[2])))
		if res == nil {
			return []Value(nil)
		}
		out := make([]Value, len(res))
		for i, r := range res {
			out[i] = strList(r)
		}
		return out
	})
	reg("(*regexp.Regexp).FindAllStringIndex", func(m *Machine, fr *frame, a []Value) Value {
		res := reOf(m, a[0]).FindAllStringIndex(m.concStr(a[1], "Regexp.FindAllStringIndex"), int(m.concInt(a[2])))
		if res == nil {
			return []Value(nil)
		}
		out := make([]Value, len(res))
		for i, r := range res {
			out[i] = intList(r)
		}
		return out
	})
	reg("(*regexp.Regexp).Split", func(m *Machine, fr *frame, a []Value) Value {
		return strList(reOf(m, a[0]).Split(m.concStr(a[1], "Regexp.Split"), int(m.concInt(a[2]))))
	})
	reg("(*regexp.Regexp).SubexpNames", func(m *Machine, fr *frame, a []Value) Value { return strList(reOf(m, a[0]).SubexpNames()) })
	reg("(*regexp.Regexp).NumSubexp", func(m *Machine, fr *frame, a []Value) Value {
		return BV(64, uint64(reOf(m, a[0]).NumSubexp()))
	})
	reg("(*regexp.Regexp).String", func(m *Machine, fr *frame, a []Value) Value { return CStr(reOf(m, a[0]).String()) })
	reg("(*regexp.Regexp).NumSubexp", func(m *Machine, fr *frame, a []Value) Value {
		return BV(64, uint64(reOf(m, a[0]).NumSubexp()))
	})
	reg("(*regexp.Regexp).SubexpNames", func(m *Machine, fr *frame, a []Value) Value {
		return strList(reOf(m, a[0]).SubexpNames())
	})
	reg("(*regexp.Regexp).SubexpIndex", func(m *Machine, fr *frame, a []Value) Value {
		return BV(64, uint64(int64(reOf(m, a[0]).SubexpIndex(m.concStr(a[1], "SubexpIndex")))))
	})

	// ---- hashes: uninterpreted on symbolic bytes, real code on concrete bytes ----
	hashUF := func(name string) intrinsic {
		return func(m *Machine, fr *frame, a []Value) Value {
			bs := termsOf(a[0].([]Value))
			allConst := true
			for _, b := range bs {
				if !b.IsConst() {
					allConst = false
					break
				}
			}
			if allConst {
				return fallThrough
			}
			m.stubs[fmt.Sprintf("UF:%s over %d symbolic bytes", name, len(bs))]++
			return UF(fmt.Sprintf("%s/%d", name, len(bs)), SBV(64), bs...)
		}
	}
	reg("github.com/go-faster/city.CH64", hashUF("city.CH64"))
	reg("github.com/go-faster/city.Hash64", hashUF("city.Hash64"))

	// ---- time ----
	nowFn := func(m *Machine, fr *frame, a []Value) Value {
		m.nowSeq++
		if m.opts["symbolic-clock"] == 0 {
			// default clock: a fixed instant advancing by one second per reading
			return Tuple{BV(64, uint64(1700000000+m.nowSeq)), BV(32, 0), BV(64, 0)}
		}
		// nondecreasing nondeterministic instants (seconds since 1970 in [2^30, 2^32))
		in := m.path.NewInput("now-sec", "env-int64", SBV(64))
		lo := BVCmp(OpBVSle, BV(64, 1<<30), in.T)
		hi := BVCmp(OpBVSlt, in.T, BV(64, 1<<32))
		m.path.assert(And(lo, hi))
		if m.lastNow != nil {
			m.path.assert(BVCmp(OpBVSle, m.lastNow, in.T))
		}
		m.lastNow = in.T
		return Tuple{in.T, BV(32, 0), BV(64, 0)}
	}
	reg("time.now", nowFn)
	reg("time.runtimeNow", nowFn)
	// (Time).Truncate(d) for d a whole number of seconds on a time without sub-second part and without
	// monotonic reading: ext - ext mod d1 (exactly what div()+Add(-r) compute for ext >= 0); everything
	// else falls through to the real code.
	reg("(time.Time).Truncate", func(m *Machine, fr *frame, a []Value) Value {
		t := a[0].(Struct)
		d := a[1].(*Term)
		wall, ext := t[0].(*Term), t[1].(*Term)
		if !d.IsConst() || d.S() <= 0 || d.S()%1000000000 != 0 || !wall.IsConst() || wall.C != 0 {
			return fallThrough
		}
		if ext.IsConst() {
			return fallThrough
		}
		if m.decide(BVCmp(OpBVSlt, ext, BV(64, 0))) {
			return fallThrough
		}
		m.stubs["model:time.Time.Truncate(whole seconds) = ext - ext mod d"]++
		d1 := BV(64, uint64(d.S()/1000000000))
		r := m.path.remConst(ext, d1.C)
		return Struct{wall, BVBin(OpBVSub, ext, r), t[2]}
	})
	// (Time).Sub of two wall-clock instants (no monotonic reading) with a symbolic second count: the
	// library's overflow check divides by 10^9 again, which no back end decides; the model computes
	// (t.sec-u.sec)*10^9 + (t.nsec-u.nsec) when the second difference is within +-9223372035 (exact there),
	// saturates beyond +-9223372037 as the library does, and gives up in the two boundary seconds.
	reg("(time.Time).Sub", func(m *Machine, fr *frame, a []Value) Value {
		t, u := a[0].(Struct), a[1].(Struct)
		tw, te, uw, ue := t[0].(*Term), t[1].(*Term), u[0].(*Term), u[1].(*Term)
		if !tw.IsConst() || !uw.IsConst() || tw.C>>30 != 0 || uw.C>>30 != 0 || (te.IsConst() && ue.IsConst()) {
			return fallThrough
		}
		m.stubs["model:time.Time.Sub = (sec diff)*1e9 + nsec diff, saturating"]++
		// the operands are bounded to +-2^62 so that the difference cannot wrap
		lim := BV(64, 1<<62)
		nlim := BV(64, uint64(1<<63|1<<62))
		for _, e := range []*Term{te, ue} {
			if !m.decide(And(BVCmp(OpBVSlt, e, lim), BVCmp(OpBVSlt, nlim, e))) {
				m.unsupported("Time.Sub of an instant beyond +-2^62 seconds")
			}
		}
		sd := BVBin(OpBVSub, te, ue)
		nd := int64(tw.C) - int64(uw.C)
		const r = 9223372035
		if m.decide(And(BVCmp(OpBVSle, BV(64, uint64(^uint64(r)+1)), sd), BVCmp(OpBVSle, sd, BV(64, r)))) {
			return BVBin(OpBVAdd, BVBin(OpBVMul, sd, BV(64, 1000000000)), BV(64, uint64(nd)))
		}
		if m.decide(BVCmp(OpBVSlt, BV(64, r+2), sd)) {
			return BV(64, 1<<63-1)
		}
		if m.decide(BVCmp(OpBVSlt, sd, BV(64, uint64(^uint64(r+2)+1)))) {
			return BV(64, 1<<63)
		}
		m.unsupported("Time.Sub within two seconds of Duration saturation")
		return nil
	})
	reg(vrtPath+".SymbolicClock", func(m *Machine, fr *frame, a []Value) Value { m.opts["symbolic-clock"] = 1; return nil })
	// timers never fire on their own: time-triggered behaviour is driven explicitly by the harness
	reg("time.NewTicker", func(m *Machine, fr *frame, a []Value) Value {
		m.chanN++
		var cell Value = Struct{&Chan{id: m.chanN, cap: 1}, TFalse}
		return &cell
	})
	reg("(*time.Ticker).Stop", func(m *Machine, fr *frame, a []Value) Value { return nil })
	reg("(*time.Ticker).Reset", func(m *Machine, fr *frame, a []Value) Value { return nil })
	reg("time.NewTimer", func(m *Machine, fr *frame, a []Value) Value {
		m.chanN++
		var cell Value = Struct{&Chan{id: m.chanN, cap: 1}, TFalse}
		return &cell
	})
	reg("(*time.Timer).Stop", func(m *Machine, fr *frame, a []Value) Value { return TTrue })
	reg("(*time.Timer).Reset", func(m *Machine, fr *frame, a []Value) Value { return TTrue })
	reg("time.AfterFunc", func(m *Machine, fr *frame, a []Value) Value {
		m.chanN++
		var cell Value = Struct{(*Chan)(nil), TFalse}
		return &cell
	})
	reg("time.After", func(m *Machine, fr *frame, a []Value) Value {
		// one-shot delays elapse immediately (retry back-off, poll sleeps); periodic timers never fire
		m.chanN++
		var now Value = Struct{BV(64, 0), BV(64, uint64(1700000000+62135596800)), (*Value)(nil)}
		return &Chan{id: m.chanN, cap: 1, buf: []Value{now}}
	})
	// (Time).Format("2006-01-02") of a symbolic instant: the ISO date is modelled by the order- and
	// equality-preserving token "#" + 8-digit day number floor((unix+zoneoffset)/86400). Harness oracles
	// read it back with vlib.DayOf, which also understands real ISO dates (native replay).
	reg("(time.Time).Format", func(m *Machine, fr *frame, a []Value) Value {
		t := a[0].(Struct)
		layout, ok := a[1].(Str).Concrete()
		wall, ext := t[0].(*Term), t[1].(*Term)
		if !ok || layout != "2006-01-02" || ext.IsConst() || !wall.IsConst() || wall.C>>30 != 0 { // only a sub-second part in wall: ext holds the seconds
			return fallThrough
		}
		unix := BVBin(OpBVAdd, ext, BV(64, uint64(^uint64(62135596800)+1)))
		off := BV(64, 0)
		if loc, _ := t[2].(*Value); loc != nil {
			lp := m.global(m.P.pkgs["time"].Var("localLoc"))
			if loc == lp {
				if m.tzOff != nil {
					off = m.tzOff
				}
			} else if ls, ok := (*loc).(Struct); ok && len(ls) >= 2 {
				// a fixed zone (time.FixedZone): one zone, no transitions; UTC has no zones at all
				zs, _ := ls[1].([]Value)
				if len(zs) == 1 {
					off = zs[0].(Struct)[1].(*Term)
				} else if len(zs) > 1 {
					return fallThrough
				}
			}
		}
		sec := BVBin(OpBVAdd, unix, off)
		if m.decide(BVCmp(OpBVSlt, sec, BV(64, 0))) {
			m.unsupported("Format of an instant before 1970")
		}
		day := m.path.divConst(sec, 86400)
		if !m.decide(BVCmp(OpBVSlt, day, BV(64, 100000000))) {
			m.unsupported("Format of an instant beyond day 10^8")
		}
		m.stubs["model:time.Format(2006-01-02) = '#'+8-digit day number"]++
		out := []*Term{BV(8, '#')}
		acc := BV(64, 0)
		var known uint64
		have := false
		if v, ok := m.path.evalUnder(day); ok {
			known, have = v, true
		}
		for i := 0; i < 8; i++ {
			d := m.path.NewAux("dd", SBV(8))
			if have {
				p := uint64(1)
				for k := 0; k < 7-i; k++ {
					p *= 10
				}
				m.path.model[d.Name] = (known / p) % 10
			}
			m.path.assert(BVCmp(OpBVUle, d, BV(8, 9)))
			out = append(out, BVBin(OpBVAdd, d, BV(8, '0')))
			acc = BVBin(OpBVAdd, BVBin(OpBVMul, acc, BV(64, 10)), Zext(d, 64))
		}
		m.path.assert(Eq(acc, day))
		return StrFromTerms(out)
	})
	reg("time.runtimeNano", func(m *Machine, fr *frame, a []Value) Value { return BV(64, 1) })
	reg("time.Sleep", func(m *Machine, fr *frame, a []Value) Value { m.yield(); return nil })
	reg("time.initLocal", func(m *Machine, fr *frame, a []Value) Value {
		// Local = UTC unless the harness asked for a symbolic zone (vrt.SymbolicTZ)
		if m.tzOff == nil {
			return nil
		}
		tp := m.P.pkgs["time"]
		cell := m.global(tp.Var("localLoc"))
		loc := (*cell).(Struct) // name, zone, tx, extend, cacheStart, cacheEnd, cacheZone
		var z Value = Struct{CStr("VZ"), m.tzOff, TFalse}
		zs := []Value{z}
		loc[0] = CStr("Local")
		loc[1] = zs
		loc[2] = []Value{Struct{BV(64, 1<<63), BV(8, 0), TFalse, TFalse}}
		loc[4] = BV(64, 1<<63)
		loc[5] = BV(64, (1<<63)-1)
		loc[6] = &zs[0]
		return nil
	})
	reg(vrtPath+".SymbolicTZ", func(m *Machine, fr *frame, a []Value) Value {
		// process time zone: whole hours -12..+14 (replayed natively with TZ=Etc/GMT-+N)
		in := m.path.NewInput("TZ-offset-hours", "tz", SBV(64))
		m.path.assert(And(BVCmp(OpBVSle, BV(64, uint64(^uint64(11))), in.T), BVCmp(OpBVSle, in.T, BV(64, 14))))
		m.tzOff = BVBin(OpBVMul, in.T, BV(64, 3600))
		return in.T
	})
}
