package main

// Symbolic interpreter for go/ssa, structured after x/tools/go/ssa/interp.

import (
	"fmt"
	"go/token"
	"go/types"
	"runtime/debug"
	"slices"
	"strings"

	"golang.org/x/tools/go/ssa"
)

type Program struct {
	prog    *ssa.Program
	pkgs    map[string]*ssa.Package
	rtErr   types.Type // runtime.errorString
	errStr  types.Type // *errors.errorString
	repoDir string
}

type deferred struct {
	fn    Value
	args  []Value
	instr *ssa.Defer
	tail  *deferred
}

type frame struct {
	m                *Machine
	g                *G
	caller           *frame
	fn               *ssa.Function
	block, prevBlock *ssa.BasicBlock
	env              map[ssa.Value]Value
	locals           []Value
	defers           *deferred
	result           Value
	panicking        bool
	panic            any
	phitemps         []Value
	phiOverride      map[*ssa.Phi]Value
	visits           map[*ssa.BasicBlock]int
	callpos          token.Pos
}

type targetPanic struct{ v Value }

type internalErr struct {
	msg    string
	stack  string
	frames []string
}

// Machine is the per-path interpreter state.
type Machine struct {
	P        *Program
	path     *Path
	globals  map[*ssa.Global]*Value
	initDone map[*ssa.Package]bool
	steps    int
	maxSteps int
	unwind   int // symbolic loop bound per frame/header
	cunwind  int // concrete loop bound per frame/header
	funcs    map[*ssa.Function]int // functions executed -> instruction count
	stubs    map[string]int
	// scheduler
	gs        []*G
	cur       *G
	killed    bool
	outcome   *Outcome
	doneCh    chan struct{}
	schedSym  bool // scheduling choices are symbolic
	checkLeak bool
	mapOrder  bool
	side      map[*Value]any // side tables for sync primitives
	chanN     int
	opts      map[string]int64
	initDepth int
	lenient   int
	callDepth int
	initTop   *ssa.Function
	sites     map[string]int
	curFrame  *frame
	curPos    token.Pos
	nowSeq    int
	lastNow   *Term
	tzOff     *Term
	noIfConv  bool
	ifConvAll bool
	known     map[string]bool // known finding ids with status known
	knownMode string          // "exclude" | "only:<id>"
	rows      map[*Value]*sqlRows
	extra     map[string]any
}

func deref(t types.Type) types.Type {
	if p, ok := t.Underlying().(*types.Pointer); ok {
		return p.Elem()
	}
	panic("deref of non-pointer " + t.String())
}

func (m *Machine) end(kind OutcomeKind, format string, args ...any) {
	panic(pathEnd{Outcome{Kind: kind, Msg: fmt.Sprintf(format, args...)}})
}

func (m *Machine) unsupported(format string, args ...any) {
	if m.lenient > 0 {
		panic(lenientSkip{fmt.Sprintf(format, args...)})
	}
	m.end(OutUnsupported, format, args...)
}

type lenientSkip struct{ msg string }

// lenientCall runs a call made directly by a package initialiser; if the callee cannot be executed
// (unsupported construct, engine limitation, panic) the result is the zero value and the stub is recorded.
func (m *Machine) lenientCall(fr *frame, instr *ssa.Call, fn Value, args []Value) (res Value) {
	depth := m.callDepth
	defer func() {
		if r := recover(); r != nil {
			switch r.(type) {
			case pathEnd, killSig:
				panic(r)
			}
			m.callDepth = depth
			m.stubs[fmt.Sprintf("init-skip:%s: call at %s", fr.fn.Pkg.Pkg.Path(), m.pos(instr.Pos()))]++
			res = zero(instr.Type())
		}
	}()
	return m.call(fr, instr.Pos(), fn, args)
}

func (m *Machine) rtPanic(msg string) {
	panic(targetPanic{Iface{T: m.P.rtErr, V: CStr(msg)}})
}

func (fr *frame) get(key ssa.Value) Value {
	switch key := key.(type) {
	case nil:
		return nil
	case *ssa.Function:
		return key
	case *ssa.Builtin:
		return key
	case *ssa.Const:
		return constValue(key)
	case *ssa.Global:
		return fr.m.global(key)
	}
	if r, ok := fr.env[key]; ok {
		return r
	}
	panic(fmt.Sprintf("get: no value for %T: %v in %s", key, key.Name(), fr.fn))
}

func (m *Machine) global(g *ssa.Global) *Value {
	if r, ok := m.globals[g]; ok {
		return r
	}
	// lazily create all globals of the package and run its initialiser
	pkg := g.Pkg
	for _, mem := range pkg.Members {
		if gv, ok := mem.(*ssa.Global); ok {
			if _, ok := m.globals[gv]; !ok {
				cell := zero(deref(gv.Type()))
				m.globals[gv] = &cell
			}
		}
	}
	m.initPackage(pkg)
	return m.globals[g]
}

// initPackage runs pkg's init function leniently, skipping other packages' inits
// (those are run lazily on first access to one of their globals).
func (m *Machine) initPackage(pkg *ssa.Package) {
	if m.initDone[pkg] {
		return
	}
	m.initDone[pkg] = true
	initFn := pkg.Func("init")
	if initFn == nil || len(initFn.Blocks) == 0 {
		return
	}
	if skipInitPkgs[pkg.Pkg.Path()] {
		return
	}
	if f, ok := pkgInitOverrides[pkg.Pkg.Path()]; ok {
		m.stubs["init-override:"+pkg.Pkg.Path()]++
		f(m, pkg)
		return
	}
	m.lenient++
	m.initDepth++
	savedTop := m.initTop
	m.initTop = initFn
	saved := m.cunwind
	m.cunwind = 1 << 30
	defer func() {
		m.cunwind = saved
		m.initTop = savedTop
		m.lenient--
		m.initDepth--
		if r := recover(); r != nil {
			switch r := r.(type) {
			case lenientSkip:
				m.stubs["init-skip:"+pkg.Pkg.Path()+": "+r.msg]++
			case targetPanic:
				m.stubs["init-panic:"+pkg.Pkg.Path()]++
			default:
				panic(r)
			}
		}
	}()
	m.callSSA(nil, token.NoPos, initFn, nil, nil)
}

func (fr *frame) runDefer(d *deferred) {
	var ok bool
	defer func() {
		if !ok {
			r := recover()
			switch r.(type) {
			case pathEnd, killSig, lenientSkip:
				panic(r)
			}
			fr.panicking = true
			fr.panic = r
		}
	}()
	fr.m.call(fr, d.instr.Pos(), d.fn, d.args)
	ok = true
}

func (fr *frame) runDefers() {
	for d := fr.defers; d != nil; d = d.tail {
		fr.runDefer(d)
	}
	fr.defers = nil
	if fr.panicking {
		panic(fr.panic)
	}
}

func (m *Machine) lookupMethod(typ types.Type, meth *types.Func) *ssa.Function {
	return m.P.prog.LookupMethod(typ, meth.Pkg(), meth.Name())
}

type continuation int

const (
	kNext continuation = iota
	kReturn
	kJump
)

func (m *Machine) decide(c *Term) bool {
	if !c.IsConst() && m.sites != nil && m.curFrame != nil {
		before := len(m.path.newWork)
		r := m.path.Decide(c)
		if len(m.path.newWork) > before {
			m.sites[fmt.Sprintf("%s @%s", m.curFrame.fn, m.pos(m.curPos))]++
		}
		return r
	}
	return m.path.Decide(c)
}

func (fr *frame) jump(b *ssa.BasicBlock, symbolic bool) {
	fr.prevBlock, fr.block = fr.block, b
	// loop accounting: count visits of each block within this frame
	if fr.visits == nil {
		fr.visits = map[*ssa.BasicBlock]int{}
	}
	n := fr.visits[b] + 1
	fr.visits[b] = n
	if n > fr.m.cunwind {
		fr.m.end(OutUnwind, "loop bound %d exceeded in %s block %d (%s)", fr.m.cunwind, fr.fn, b.Index, fr.m.pos(fr.fn.Pos()))
	}
}

func (m *Machine) pos(p token.Pos) string {
	if p == token.NoPos {
		return "?"
	}
	ps := m.P.prog.Fset.Position(p)
	f := ps.Filename
	if strings.HasPrefix(f, m.P.repoDir) {
		f = strings.TrimPrefix(f, m.P.repoDir+"/")
	}
	return fmt.Sprintf("%s:%d", f, ps.Line)
}

func (m *Machine) visitInstr(fr *frame, instr ssa.Instruction) continuation {
	m.steps++
	m.curFrame = fr
	if p := instr.Pos(); p != token.NoPos {
		m.curPos = p
	}
	if m.steps > m.maxSteps {
		m.end(OutBudget, "instruction budget %d exhausted in %s", m.maxSteps, fr.fn)
	}
	switch instr := instr.(type) {
	case *ssa.DebugRef:

	case *ssa.UnOp:
		fr.env[instr] = m.unop(fr, instr, fr.get(instr.X))

	case *ssa.BinOp:
		fr.env[instr] = m.binop(instr.Op, instr.X.Type(), instr.Y.Type(), fr.get(instr.X), fr.get(instr.Y))

	case *ssa.Call:
		fn, args := m.prepareCall(fr, &instr.Call)
		if m.initDepth > 0 && fr.fn == m.initTop {
			fr.env[instr] = m.lenientCall(fr, instr, fn, args)
		} else {
			fr.env[instr] = m.call(fr, instr.Pos(), fn, args)
		}

	case *ssa.ChangeInterface:
		fr.env[instr] = fr.get(instr.X)

	case *ssa.ChangeType:
		fr.env[instr] = fr.get(instr.X)

	case *ssa.Convert:
		// &slice[i] -> unsafe.Pointer keeps the extent of the backing slice (needed for byte views)
		if b, ok := instr.Type().Underlying().(*types.Basic); ok && b.Kind() == types.UnsafePointer {
			if ia, ok := instr.X.(*ssa.IndexAddr); ok {
				if base, ok := fr.get(ia.X).([]Value); ok {
					if it := fr.get(ia.Index).(*Term); it.IsConst() && int(it.C) < len(base) {
						fr.env[instr] = UPtr{S: base[it.C:], T: deref(ia.Type())}
						break
					}
				}
			}
		}
		fr.env[instr] = m.conv(instr.Type(), instr.X.Type(), fr.get(instr.X))

	case *ssa.SliceToArrayPointer:
		x := fr.get(instr.X).([]Value)
		n := int(instr.Type().Underlying().(*types.Pointer).Elem().Underlying().(*types.Array).Len())
		if len(x) < n {
			m.rtPanic("cannot convert slice to array pointer: length too short")
		}
		if x == nil {
			fr.env[instr] = (*Value)(nil)
		} else {
			var v Value = Array(x[:n:n])
			fr.env[instr] = &v
		}

	case *ssa.MakeInterface:
		fr.env[instr] = Iface{T: instr.X.Type(), V: fr.get(instr.X)}

	case *ssa.Extract:
		fr.env[instr] = fr.get(instr.Tuple).(Tuple)[instr.Index]

	case *ssa.Slice:
		fr.env[instr] = m.slice(instr, fr.get(instr.X), fr.get(instr.Low), fr.get(instr.High), fr.get(instr.Max))

	case *ssa.Return:
		switch len(instr.Results) {
		case 0:
		case 1:
			fr.result = fr.get(instr.Results[0])
		default:
			var res []Value
			for _, r := range instr.Results {
				res = append(res, fr.get(r))
			}
			fr.result = Tuple(res)
		}
		fr.block = nil
		return kReturn

	case *ssa.RunDefers:
		fr.runDefers()

	case *ssa.Panic:
		panic(targetPanic{fr.get(instr.X)})

	case *ssa.Send:
		m.chanSend(fr.get(instr.Chan).(*Chan), fr.get(instr.X))

	case *ssa.Store:
		if sp, ok := fr.get(instr.Addr).(*SymPtr); ok {
			v := fr.get(instr.Val).(*Term)
			for i := range sp.elems {
				sp.elems[i] = Ite(Eq(sp.idx, BV(64, uint64(i))), v, sp.elems[i].(*Term))
			}
			break
		}
		addr := fr.get(instr.Addr).(*Value)
		if addr == nil {
			m.rtPanic("invalid memory address or nil pointer dereference")
		}
		store(deref(instr.Addr.Type()), addr, fr.get(instr.Val))

	case *ssa.If:
		c := fr.get(instr.Cond).(*Term)
		succ := 1
		sym := !c.IsConst()
		if sym {
			// symbolic loop accounting happens before the decision so that unbounded symbolic loops end
			if fr.visits == nil {
				fr.visits = map[*ssa.BasicBlock]int{}
			}
			key := fr.block
			if k := fr.visits[key]; k > m.unwind {
				m.end(OutUnwind, "symbolic loop bound %d exceeded in %s (%s)", m.unwind, fr.fn, m.pos(instr.Pos()))
			}
		}
		if sym && m.tryIfConvert(fr, c) {
			return kJump
		}
		if m.decide(c) {
			succ = 0
		}
		fr.jump(fr.block.Succs[succ], sym)
		return kJump

	case *ssa.Jump:
		fr.jump(fr.block.Succs[0], false)
		return kJump

	case *ssa.Defer:
		fn, args := m.prepareCall(fr, &instr.Call)
		defers := &fr.defers
		if instr.DeferStack != nil {
			if into := fr.get(instr.DeferStack); into != nil {
				defers = into.(**deferred)
			}
		}
		*defers = &deferred{fn: fn, args: args, instr: instr, tail: *defers}

	case *ssa.Go:
		fn, args := m.prepareCall(fr, &instr.Call)
		m.spawn(fn, args, instr.Pos())

	case *ssa.MakeChan:
		sz := m.concInt(fr.get(instr.Size))
		m.chanN++
		fr.env[instr] = &Chan{id: m.chanN, cap: int(sz)}

	case *ssa.Alloc:
		var addr *Value
		if instr.Heap {
			addr = new(Value)
			fr.env[instr] = addr
		} else {
			addr = fr.env[instr].(*Value)
		}
		*addr = zero(deref(instr.Type()))

	case *ssa.MakeSlice:
		capv := m.concIntBounded(fr.get(instr.Cap), "makeslice: cap out of range")
		lenv := m.concIntBounded(fr.get(instr.Len), "makeslice: len out of range")
		if lenv > capv {
			m.rtPanic("makeslice: len out of range")
		}
		if capv > 4096 && capv > 4*lenv+4096 {
			// pre-sized buffers (pools of 1M entries): a smaller backing array; only cap() could tell
			m.stubs["makeslice: capacity hint above 4096 not honoured"]++
			capv = 4*lenv + 4096
		}
		s := make([]Value, capv)
		tElt := instr.Type().Underlying().(*types.Slice).Elem()
		z := zero(tElt)
		if isScalarType(tElt) {
			for i := range s {
				s[i] = z
			}
		} else {
			for i := range s {
				s[i] = zero(tElt)
			}
		}
		fr.env[instr] = s[:lenv]

	case *ssa.MakeMap:
		fr.env[instr] = NewMap(instr.Type().Underlying().(*types.Map).Key())

	case *ssa.Range:
		fr.env[instr] = m.rangeIter(fr.get(instr.X), instr.X.Type())

	case *ssa.Next:
		fr.env[instr] = fr.get(instr.Iter).(iter).next(m)

	case *ssa.FieldAddr:
		p := fr.get(instr.X).(*Value)
		if p == nil {
			m.rtPanic("invalid memory address or nil pointer dereference")
		}
		fr.env[instr] = &(*p).(Struct)[instr.Field]

	case *ssa.Field:
		fr.env[instr] = fr.get(instr.X).(Struct)[instr.Field]

	case *ssa.IndexAddr:
		x := fr.get(instr.X)
		idx := fr.get(instr.Index).(*Term)
		var elems []Value
		switch x := x.(type) {
		case []Value:
			elems = x
		case *Value:
			if x == nil {
				m.rtPanic("invalid memory address or nil pointer dereference")
			}
			elems = (*x).(Array)
		default:
			panic(fmt.Sprintf("unexpected x type in IndexAddr: %T", x))
		}
		if !idx.IsConst() && len(elems) > 0 && len(elems) <= 1024 && symPtrOK(instr) {
			if _, scalar := elems[0].(*Term); scalar {
				widx := widenIndex(idx, instr.Index.Type())
				if !m.decide(BVCmp(OpBVUlt, widx, BV(64, uint64(len(elems))))) {
					m.rtPanic(fmt.Sprintf("index out of range [sym] with length %d", len(elems)))
				}
				fr.env[instr] = &SymPtr{elems: elems, idx: widx}
				break
			}
		}
		i := m.indexCheck(idx, instr.Index.Type(), len(elems))
		fr.env[instr] = &elems[i]

	case *ssa.Index:
		x := fr.get(instr.X)
		idx := fr.get(instr.Index).(*Term)
		switch x := x.(type) {
		case Array:
			fr.env[instr] = m.indexRead(idx, instr.Index.Type(), len(x), func(i int) Value { return x[i] })
		case Str:
			fr.env[instr] = m.indexRead(idx, instr.Index.Type(), x.Len(), func(i int) Value { return x.At(i) })
		default:
			panic(fmt.Sprintf("unexpected x type in Index: %T", x))
		}

	case *ssa.Lookup:
		fr.env[instr] = m.lookup(instr, fr.get(instr.X), fr.get(instr.Index))

	case *ssa.MapUpdate:
		mp := fr.get(instr.Map).(*Map)
		if mp == nil {
			panic(targetPanic{Iface{T: m.P.rtErr, V: CStr("assignment to entry in nil map")}})
		}
		m.mapInsert(mp, fr.get(instr.Key), copyVal(fr.get(instr.Value)))

	case *ssa.TypeAssert:
		fr.env[instr] = m.typeAssert(instr, fr.get(instr.X).(Iface))

	case *ssa.MakeClosure:
		var bindings []Value
		for _, binding := range instr.Bindings {
			bindings = append(bindings, fr.get(binding))
		}
		fr.env[instr] = &Closure{instr.Fn.(*ssa.Function), bindings}

	case *ssa.Phi:
		panic("unreachable phi")

	case *ssa.Select:
		fr.env[instr] = m.selectOp(fr, instr)

	default:
		panic(fmt.Sprintf("unexpected instruction: %T", instr))
	}
	return kNext
}

// indexCheck forks on the bounds check and concretises the index.
func (m *Machine) indexCheck(idx *Term, it types.Type, n int) int {
	if idx.IsConst() {
		i := idx.S()
		if !isSigned(it) {
			if idx.C >= uint64(n) {
				m.rtPanic(fmt.Sprintf("index out of range [%d] with length %d", idx.C, n))
			}
			return int(idx.C)
		}
		if i < 0 || i >= int64(n) {
			m.rtPanic(fmt.Sprintf("index out of range [%d] with length %d", i, n))
		}
		return int(i)
	}
	idx = widenIndex(idx, it)
	inb := BVCmp(OpBVUlt, idx, BV(64, uint64(n))) // unsigned compare covers negative
	if !m.decide(inb) {
		m.rtPanic(fmt.Sprintf("index out of range [sym] with length %d", n))
	}
	return int(m.concretize(idx))
}

// indexRead reads element idx using an ite chain for scalar terms (no forking on the value of idx).
func (m *Machine) indexRead(idx *Term, it types.Type, n int, at func(int) Value) Value {
	if idx.IsConst() {
		return at(m.indexCheck(idx, it, n))
	}
	idx = widenIndex(idx, it)
	w := 64
	inb := BVCmp(OpBVUlt, idx, BV(64, uint64(n)))
	if !m.decide(inb) {
		m.rtPanic(fmt.Sprintf("index out of range [sym] with length %d", n))
	}
	if n > 0 {
		if _, ok := at(0).(*Term); ok && n <= 4096 {
			_ = w
			return muxRead(n, func(i int) *Term { return at(i).(*Term) }, idx)
		}
	}
	return at(int(m.concretize(idx)))
}

func widenIndex(idx *Term, it types.Type) *Term {
	if idx.Sort.W == 64 {
		return idx
	}
	if isSigned(it) {
		return Sext(idx, 64)
	}
	return Zext(idx, 64)
}

func isSigned(t types.Type) bool {
	if b, ok := t.Underlying().(*types.Basic); ok {
		return b.Info()&types.IsUnsigned == 0
	}
	return true
}

// concInt concretises an integer value by forking.
func (m *Machine) concInt(v Value) int64 {
	t := v.(*Term)
	if t.IsConst() {
		return t.S()
	}
	c := m.concretize(t)
	return sx(c, t.Sort.W)
}

func (m *Machine) concIntBounded(v Value, msg string) int64 {
	t := v.(*Term)
	if !t.IsConst() {
		w := t.Sort.W
		ok := And(BVCmp(OpBVSle, BV(w, 0), t), BVCmp(OpBVSle, t, BV(w, 1<<20)))
		if !m.decide(ok) {
			// negative => runtime panic; huge => also treated as panic (out of memory in reality)
			m.rtPanic(msg)
		}
	}
	n := m.concInt(t)
	if n < 0 {
		m.rtPanic(msg)
	}
	if n > 1<<24 {
		m.unsupported("allocation of %d elements", n)
	}
	return n
}

func (m *Machine) prepareCall(fr *frame, call *ssa.CallCommon) (fn Value, args []Value) {
	v := fr.get(call.Value)
	if call.Method == nil {
		fn = v
	} else {
		recv := v.(Iface)
		if recv.T == nil {
			m.rtPanic("invalid memory address or nil pointer dereference (method on nil interface)")
		}
		if _, isNative := recv.V.(*Native); isNative && m.nativeMethodOK(recv, call.Method) {
			fn = &nativeMethod{recv: recv, meth: call.Method}
		} else if f := m.lookupMethod(recv.T, call.Method); f == nil {
			panic(fmt.Sprintf("method set for dynamic type %v does not contain %s", recv.T, call.Method))
		} else {
			fn = f
		}
		args = append(args, recv.V)
	}
	for _, arg := range call.Args {
		args = append(args, fr.get(arg))
	}
	return
}

type nativeMethod struct {
	recv Iface
	meth *types.Func
}

func (m *Machine) nativeMethodOK(recv Iface, meth *types.Func) bool { return false }

func (m *Machine) call(caller *frame, callpos token.Pos, fn Value, args []Value) Value {
	switch fn := fn.(type) {
	case *ssa.Function:
		if fn == nil {
			m.rtPanic("invalid memory address or nil pointer dereference (call of nil func)")
		}
		return m.callSSA(caller, callpos, fn, args, nil)
	case *Closure:
		return m.callSSA(caller, callpos, fn.Fn, args, fn.Env)
	case *ssa.Builtin:
		return m.callBuiltin(caller, callpos, fn, args)
	case *goFunc:
		return fn.f(m, caller, args)
	}
	panic(fmt.Sprintf("cannot call %T", fn))
}

// goFunc is a function value implemented by the engine (e.g. context.CancelFunc models).
type goFunc struct {
	name string
	f    func(m *Machine, caller *frame, args []Value) Value
}

func (m *Machine) callSSA(caller *frame, callpos token.Pos, fn *ssa.Function, args []Value, env []Value) Value {
	fr := &frame{m: m, caller: caller, fn: fn, callpos: callpos}
	if caller != nil {
		fr.g = caller.g
	} else {
		fr.g = m.cur
	}
	if fn.Synthetic == "package initializer" && fn != m.initTop {
		return nil // other packages are initialised lazily on first access to one of their globals
	}
	if fn.Parent() == nil {
		if ext := findIntrinsic(fn); ext != nil {
			if r := ext(m, fr, args); r != Value(fallThrough) {
				return r
			}
		}
	}
	if fn.Blocks == nil {
		// try to build dependency bodies lazily
		if fn.Pkg != nil {
			fn.Pkg.Build()
		}
		if fn.Blocks == nil {
			m.unsupported("no code for function %s", fn)
			return zero(fn.Signature.Results())
		}
	}
	if fn.TypeParams().Len() > 0 && len(fn.TypeArgs()) == 0 {
		m.unsupported("uninstantiated generic %s", fn)
	}
	m.callDepth++
	if m.callDepth > 400 {
		m.end(OutBudget, "call depth exceeded in %s", fn)
	}
	defer func() { m.callDepth-- }()
	if m.initDepth == 0 {
		m.funcs[fn] += 0
	}
	fr.env = make(map[ssa.Value]Value)
	fr.block = fn.Blocks[0]
	fr.locals = make([]Value, len(fn.Locals))
	for i, l := range fn.Locals {
		fr.locals[i] = zero(deref(l.Type()))
		fr.env[l] = &fr.locals[i]
	}
	for i, p := range fn.Params {
		fr.env[p] = args[i]
	}
	for i, fv := range fn.FreeVars {
		fr.env[fv] = env[i]
	}
	for fr.block != nil {
		m.runFrame(fr)
	}
	return fr.result
}

func (m *Machine) runFrame(fr *frame) {
	defer func() {
		if fr.block == nil {
			return
		}
		r := recover()
		switch r.(type) {
		case pathEnd, killSig, lenientSkip:
			panic(r)
		case targetPanic:
		default:
			// interpreter bug: add location
			if _, ok := r.(internalErr); !ok {
				r = internalErr{msg: fmt.Sprintf("%v", r), stack: string(debug.Stack())}
			}
			ie := r.(internalErr)
			if len(ie.frames) < 12 {
				ie.frames = append(ie.frames, fmt.Sprintf("%s (%s)", fr.fn, m.pos(fr.fn.Pos())))
			}
			panic(ie)
		}
		fr.panicking = true
		fr.panic = r
		fr.runDefers()
		fr.block = fr.fn.Recover
		if fr.block == nil {
			// no named results: return zero values
			fr.result = zeroResults(fr.fn)
		}
	}()
	for {
		nonPhis := executePhis(fr)
		n := 0
		for _, instr := range nonPhis {
			n++
			if m.visitInstr(fr, instr) == kReturn {
				if m.initDepth == 0 {
					m.funcs[fr.fn] += n
				}
				return
			}
		}
		if m.initDepth == 0 {
			m.funcs[fr.fn] += n
		}
	}
}

func zeroResults(fn *ssa.Function) Value {
	res := fn.Signature.Results()
	switch res.Len() {
	case 0:
		return nil
	case 1:
		return zero(res.At(0).Type())
	}
	t := make(Tuple, res.Len())
	for i := range t {
		t[i] = zero(res.At(i).Type())
	}
	return t
}

func executePhis(fr *frame) []ssa.Instruction {
	firstNonPhi := -1
	for i, instr := range fr.block.Instrs {
		if _, ok := instr.(*ssa.Phi); !ok {
			firstNonPhi = i
			break
		}
	}
	nonPhis := fr.block.Instrs[firstNonPhi:]
	if firstNonPhi > 0 {
		phis := fr.block.Instrs[:firstNonPhi]
		predIndex := slices.Index(fr.block.Preds, fr.prevBlock)
		fr.phitemps = fr.phitemps[:0]
		for _, phi := range phis {
			phi := phi.(*ssa.Phi)
			if ov, ok := fr.phiOverride[phi]; ok {
				fr.phitemps = append(fr.phitemps, ov)
				continue
			}
			fr.phitemps = append(fr.phitemps, fr.get(phi.Edges[predIndex]))
		}
		fr.phiOverride = nil
		for i, phi := range phis {
			fr.env[phi.(*ssa.Phi)] = fr.phitemps[i]
		}
	}
	return nonPhis
}

func (m *Machine) doRecover(caller *frame) Value {
	if caller != nil && !caller.panicking && caller.caller != nil && caller.caller.panicking {
		p := caller.caller.panic
		switch p := p.(type) {
		case targetPanic:
			caller.caller.panicking = false
			caller.caller.panic = nil
			return p.v
		default:
			panic(fmt.Sprintf("unexpected panic type %T in target call to recover(): %v", p, p))
		}
	}
	return Iface{}
}

// findMethod returns the exported method name of type T, or nil.
func (m *Machine) findMethod(T types.Type, name string) *ssa.Function {
	sel := m.P.prog.MethodSets.MethodSet(T).Lookup(nil, name)
	if sel == nil {
		return nil
	}
	return m.P.prog.MethodValue(sel)
}

func (m *Machine) concretize(t *Term) uint64 {
	if !t.IsConst() && m.sites != nil && m.curFrame != nil {
		before := len(m.path.newWork)
		r := m.path.Concretize(t)
		if len(m.path.newWork) > before {
			m.sites[fmt.Sprintf("%s @%s (concretise)", m.curFrame.fn, m.pos(m.curPos))]++
		}
		return r
	}
	return m.path.Concretize(t)
}

// SymPtr is the address of a scalar element selected by a symbolic index; it only ever flows into
// loads and stores of the same function (checked by symPtrOK), so no forking on the index is needed.
type SymPtr struct {
	elems []Value
	idx   *Term
}

func symPtrOK(instr *ssa.IndexAddr) bool {
	refs := instr.Referrers()
	if refs == nil {
		return false
	}
	for _, r := range *refs {
		switch r := r.(type) {
		case *ssa.UnOp:
			if r.Op != token.MUL {
				return false
			}
		case *ssa.Store:
			if r.Addr != instr || r.Val == instr {
				return false
			}
		case *ssa.DebugRef:
		default:
			return false
		}
	}
	return true
}

// muxRead selects element idx (already known to be < n) with a balanced multiplexer over the index
// bits; equal constant sub-trees collapse, which keeps lookups in sparse constant tables small.
func muxRead(n int, at func(int) *Term, idx *Term) *Term {
	bitsN := 0
	for (1 << uint(bitsN)) < n {
		bitsN++
	}
	var build func(lo, bit int) *Term
	build = func(lo, bit int) *Term {
		if lo >= n {
			return at(n - 1)
		}
		if bit < 0 {
			return at(lo)
		}
		hiT := build(lo+(1<<uint(bit)), bit-1)
		loT := build(lo, bit-1)
		if lo+(1<<uint(bit)) >= n {
			return loT
		}
		c := Eq(Extract(idx, bit, bit), BV(1, 1))
		return Ite(c, hiT, loT)
	}
	return build(0, bitsN-1)
}

// fallThrough is returned by an intrinsic that declines the call (the SSA body is executed instead).
var fallThrough = &struct{ x int }{}

// pkgInitOverrides replaces the initialiser of packages whose real init cannot be executed (reflection).
var pkgInitOverrides = map[string]func(m *Machine, pkg *ssa.Package){}
