package main

import (
	"fmt"
	"go/constant"
	"go/token"
	"go/types"
	"math"
	"unicode/utf8"
	"unsafe"

	"golang.org/x/tools/go/ssa"
)

func constValue(c *ssa.Const) Value {
	if c.Value == nil {
		return zero(c.Type())
	}
	if t, ok := c.Type().Underlying().(*types.Basic); ok {
		if w, _, ok := intWidth(t.Kind()); ok {
			if c.Value.Kind() == constant.Float || c.Value.Kind() == constant.Int {
				if i, ok := constant.Int64Val(constant.ToInt(c.Value)); ok {
					return BV(w, uint64(i))
				}
				u, _ := constant.Uint64Val(constant.ToInt(c.Value))
				return BV(w, u)
			}
			return BV(w, uint64(c.Int64()))
		}
		switch t.Kind() {
		case types.Bool, types.UntypedBool:
			return BoolT(constant.BoolVal(c.Value))
		case types.Float32:
			return FPConst(32, c.Float64())
		case types.Float64, types.UntypedFloat:
			return FPConst(64, c.Float64())
		case types.String, types.UntypedString:
			if c.Value.Kind() == constant.String {
				return CStr(constant.StringVal(c.Value))
			}
			return CStr(string(rune(c.Int64())))
		case types.Complex128, types.Complex64, types.UntypedComplex:
			cv := c.Complex128()
			return Tuple{FPConst(64, real(cv)), FPConst(64, imag(cv))}
		}
	}
	panic(fmt.Sprintf("constValue: %s", c))
}

func basicOf(t types.Type) *types.Basic {
	b, _ := t.Underlying().(*types.Basic)
	return b
}

func (m *Machine) binop(op token.Token, tx, ty types.Type, x, y Value) Value {
	switch op {
	case token.EQL:
		return m.eqnil(tx, x, y)
	case token.NEQ:
		return Not(m.eqnil(tx, x, y))
	}
	b := basicOf(tx)
	if b == nil {
		if tp, ok := tx.(*types.TypeParam); ok {
			panic("binop on type param " + tp.String())
		}
		panic(fmt.Sprintf("binop %s on %s", op, tx))
	}
	info := b.Info()
	switch {
	case info&types.IsString != 0:
		xs, ys := x.(Str), y.(Str)
		switch op {
		case token.ADD:
			return StrConcat(xs, ys)
		case token.LSS:
			return StrLess(xs, ys)
		case token.GTR:
			return StrLess(ys, xs)
		case token.LEQ:
			return Not(StrLess(ys, xs))
		case token.GEQ:
			return Not(StrLess(xs, ys))
		}
	case info&types.IsInteger != 0:
		xt, yt := x.(*Term), y.(*Term)
		signed := info&types.IsUnsigned == 0
		switch op {
		case token.ADD:
			return BVBin(OpBVAdd, xt, yt)
		case token.SUB:
			return BVBin(OpBVSub, xt, yt)
		case token.MUL:
			return BVBin(OpBVMul, xt, yt)
		case token.QUO, token.REM:
			if yt.IsConst() {
				if yt.C == 0 {
					m.rtPanic("integer divide by zero")
				}
			} else if m.decide(Eq(yt, BV(yt.Sort.W, 0))) {
				m.rtPanic("integer divide by zero")
			}
			// (y*k + c) / k = y and (y*k + c) % k = c when the intervals known on this path show that nothing
			// wraps and 0 <= c < k: keeps "seconds*1000 + ms" / 1000 out of the solver
			if yt.IsConst() && xt.Sort.W == 64 {
				if q, r, ok := m.path.scaledBy(xt, yt.C, signed); ok {
					if op == token.QUO {
						return q
					}
					return BV(64, r)
				}
			}
			if signed && yt.IsConst() && xt.Sort.W == 64 && int64(yt.C) > 0 {
				if op == token.QUO {
					return m.path.divConst(xt, yt.C)
				}
				return m.path.remConst(xt, yt.C)
			}
			if op == token.QUO {
				if signed {
					return BVBin(OpBVSDiv, xt, yt)
				}
				return BVBin(OpBVUDiv, xt, yt)
			}
			if signed {
				return BVBin(OpBVSRem, xt, yt)
			}
			return BVBin(OpBVURem, xt, yt)
		case token.AND:
			return BVBin(OpBVAnd, xt, yt)
		case token.OR:
			return BVBin(OpBVOr, xt, yt)
		case token.XOR:
			return BVBin(OpBVXor, xt, yt)
		case token.AND_NOT:
			return BVBin(OpBVAnd, xt, BVNot(yt))
		case token.SHL, token.SHR:
			w := xt.Sort.W
			// negative signed shift count panics
			if yb := basicOf(ty); yb != nil && yb.Info()&types.IsUnsigned == 0 {
				if yt.IsConst() {
					if yt.S() < 0 {
						m.rtPanic("negative shift amount")
					}
				} else if m.decide(BVCmp(OpBVSlt, yt, BV(yt.Sort.W, 0))) {
					m.rtPanic("negative shift amount")
				}
			}
			var amt *Term
			if yt.Sort.W <= w {
				amt = Zext(yt, w)
			} else {
				big := BVCmp(OpBVUle, BV(yt.Sort.W, uint64(w)), yt)
				amt = Ite(big, BV(w, uint64(w)), Extract(yt, w-1, 0))
			}
			if op == token.SHL {
				return BVBin(OpBVShl, xt, amt)
			}
			if signed {
				return BVBin(OpBVAshr, xt, amt)
			}
			return BVBin(OpBVLshr, xt, amt)
		case token.LSS:
			if signed {
				return BVCmp(OpBVSlt, xt, yt)
			}
			return BVCmp(OpBVUlt, xt, yt)
		case token.LEQ:
			if signed {
				return BVCmp(OpBVSle, xt, yt)
			}
			return BVCmp(OpBVUle, xt, yt)
		case token.GTR:
			if signed {
				return BVCmp(OpBVSlt, yt, xt)
			}
			return BVCmp(OpBVUlt, yt, xt)
		case token.GEQ:
			if signed {
				return BVCmp(OpBVSle, yt, xt)
			}
			return BVCmp(OpBVUle, yt, xt)
		}
	case info&types.IsFloat != 0:
		xt, yt := x.(*Term), y.(*Term)
		switch op {
		case token.ADD:
			return FBin(OpFAdd, xt, yt)
		case token.SUB:
			return FBin(OpFSub, xt, yt)
		case token.MUL:
			return FBin(OpFMul, xt, yt)
		case token.QUO:
			return FBin(OpFDiv, xt, yt)
		case token.LSS:
			return FCmp(OpFLt, xt, yt)
		case token.LEQ:
			return FCmp(OpFLe, xt, yt)
		case token.GTR:
			return FCmp(OpFLt, yt, xt)
		case token.GEQ:
			return FCmp(OpFLe, yt, xt)
		}
	case info&types.IsBoolean != 0:
		xt, yt := x.(*Term), y.(*Term)
		switch op {
		case token.LAND, token.AND:
			return And(xt, yt)
		case token.LOR, token.OR:
			return Or(xt, yt)
		}
	}
	panic(fmt.Sprintf("invalid binary op: %s %s %s", tx, op, ty))
}

// eqnil: == with nil handling for reference types.
func (m *Machine) eqnil(t types.Type, x, y Value) *Term {
	switch t.Underlying().(type) {
	case *types.Map:
		return BoolT((x.(*Map) == nil) == (y.(*Map) == nil) && (x.(*Map) == nil || x.(*Map) == y.(*Map)))
	case *types.Slice:
		return BoolT((x.([]Value) == nil) == (y.([]Value) == nil))
	case *types.Signature:
		return BoolT(isNilFunc(x) == isNilFunc(y))
	}
	return m.equals(t, x, y)
}

func isNilFunc(v Value) bool {
	switch v := v.(type) {
	case *ssa.Function:
		return v == nil
	case *Closure:
		return v == nil
	case *ssa.Builtin:
		return v == nil
	case *goFunc:
		return v == nil
	case nil:
		return true
	}
	return false
}

func (m *Machine) equals(t types.Type, x, y Value) *Term {
	switch x := x.(type) {
	case *Term:
		return Eq(x, y.(*Term))
	case Str:
		return StrEq(x, y.(Str))
	case *Value:
		return BoolT(x == y.(*Value))
	case *Chan:
		return BoolT(x == y.(*Chan))
	case *Map:
		return BoolT(x == y.(*Map))
	case *Native:
		yn, ok := y.(*Native)
		return BoolT(ok && (x == yn || (x != nil && yn != nil && x.V == yn.V)))
	case UPtr:
		yu := y.(UPtr)
		if x.P != nil || yu.P != nil {
			return BoolT(x.P == yu.P)
		}
		if len(x.S) == 0 || len(yu.S) == 0 {
			return BoolT(len(x.S) == 0 && len(yu.S) == 0)
		}
		return BoolT(&x.S[0] == &yu.S[0])
	case Struct:
		ys := y.(Struct)
		st := t.Underlying().(*types.Struct)
		r := TTrue
		for i := range x {
			if st.Field(i).Name() == "_" {
				continue
			}
			r = And(r, m.equals(st.Field(i).Type(), x[i], ys[i]))
		}
		return r
	case Array:
		ya := y.(Array)
		et := t.Underlying().(*types.Array).Elem()
		r := TTrue
		for i := range x {
			r = And(r, m.equals(et, x[i], ya[i]))
		}
		return r
	case Iface:
		yi := y.(Iface)
		if x.T == nil || yi.T == nil {
			return BoolT(x.T == nil && yi.T == nil)
		}
		if !types.Identical(x.T, yi.T) {
			return TFalse
		}
		if !types.Comparable(x.T) {
			m.rtPanic("comparing uncomparable type " + x.T.String())
		}
		return m.equals(x.T, x.V, yi.V)
	case Tuple: // complex
		yt := y.(Tuple)
		return And(Eq(x[0].(*Term), yt[0].(*Term)), Eq(x[1].(*Term), yt[1].(*Term)))
	case *ssa.Function, *Closure, *goFunc:
		return BoolT(isNilFunc(x) == isNilFunc(y))
	case nil:
		return BoolT(y == nil)
	}
	panic(fmt.Sprintf("equals: unsupported %T (%s)", x, t))
}

func (m *Machine) unop(fr *frame, instr *ssa.UnOp, x Value) Value {
	switch instr.Op {
	case token.ARROW:
		ch := x.(*Chan)
		v, ok := m.chanRecv(ch)
		if !ok {
			v = zero(instr.X.Type().Underlying().(*types.Chan).Elem())
		}
		if instr.CommaOk {
			return Tuple{v, BoolT(ok)}
		}
		return v
	case token.SUB:
		t := x.(*Term)
		if t.Sort.K == KFP {
			return FNeg(t)
		}
		return BVNeg(t)
	case token.MUL:
		if sp, ok := x.(*SymPtr); ok {
			return muxRead(len(sp.elems), func(i int) *Term { return sp.elems[i].(*Term) }, sp.idx)
		}
		p, ok := x.(*Value)
		if !ok {
			if u, ok := x.(UPtr); ok {
				p = u.P
			}
		}
		if p == nil {
			m.rtPanic("invalid memory address or nil pointer dereference")
		}
		v := load(deref(instr.X.Type()), p)
		// type-punned headers: *(*string)(unsafe.Pointer(&b)) and *(*[]byte)(unsafe.Pointer(&s))
		switch vv := v.(type) {
		case []Value:
			if isStringType(deref(instr.X.Type())) {
				if len(vv) == 0 {
					return Str{}
				}
				return Str{A: vv[:len(vv):len(vv)]}
			}
		case Str:
			if isByteSlice(deref(instr.X.Type())) {
				if vv.A != nil {
					return vv.A
				}
				return sliceOfStr(vv)
			}
		}
		return v
	case token.NOT:
		return Not(x.(*Term))
	case token.XOR:
		return BVNot(x.(*Term))
	}
	panic(fmt.Sprintf("invalid unary op %s %T", instr.Op, x))
}

func (m *Machine) slice(instr *ssa.Slice, x, lo, hi, max Value) Value {
	var Len, Cap int
	switch x := x.(type) {
	case Str:
		Len = x.Len()
		Cap = Len
	case []Value:
		Len = len(x)
		Cap = cap(x)
	case *Value:
		if x == nil {
			m.rtPanic("invalid memory address or nil pointer dereference")
		}
		a := (*x).(Array)
		Len = len(a)
		Cap = cap(a)
		if Cap > Len {
			Cap = Len
		}
	}
	_, isStr := x.(Str)
	l, h, mx := int64(0), int64(Len), int64(Cap)
	// Bounds: 0 <= lo <= hi <= max <= cap (strings: hi <= len)
	get := func(v Value, def int64) *Term {
		if v == nil {
			return BV(64, uint64(def))
		}
		t := v.(*Term)
		if t.Sort.W < 64 {
			return Sext(t, 64)
		}
		return t
	}
	lt, ht, mt := get(lo, 0), get(hi, int64(Len)), get(max, int64(Cap))
	upper := int64(Cap)
	if isStr {
		upper = int64(Len)
	}
	ok := AndAll([]*Term{
		BVCmp(OpBVSle, BV(64, 0), lt), BVCmp(OpBVSle, lt, ht), BVCmp(OpBVSle, ht, mt), BVCmp(OpBVSle, mt, BV(64, uint64(upper))),
	})
	if !m.decide(ok) {
		m.rtPanic(fmt.Sprintf("slice bounds out of range [%s:%s] with capacity %d", showValue(lt), showValue(ht), upper))
	}
	l, h, mx = m.concInt(lt), m.concInt(ht), m.concInt(mt)
	switch x := x.(type) {
	case Str:
		return x.Slice(int(l), int(h))
	case []Value:
		if x == nil {
			return []Value(nil)
		}
		r := x[l:h:mx]
		if int(h) > Len {
			// re-slicing into the capacity: Go's spare capacity holds zero values (or what was there before);
			// the engine's spare cells may never have been written
			if st, ok := instr.X.Type().Underlying().(*types.Slice); ok {
				for i := Len; i < int(h); i++ {
					if x[:h][i] == nil {
						x[:h][i] = zero(st.Elem())
					}
				}
			}
		}
		return r
	case *Value:
		a := (*x).(Array)
		return []Value(a)[l:h:mx]
	}
	panic(fmt.Sprintf("slice: unexpected X type: %T", x))
}

// ---- maps ----

// mapFind returns the entry for key k, forking on equality with symbolic keys.
func (m *Machine) mapFind(mp *Map, k Value) *mapEntry {
	if mp == nil {
		return nil
	}
	if ck, ok := concreteKey(k); ok {
		if e, ok := mp.idx[ck]; ok {
			return e
		}
		if mp.symKeys == 0 {
			return nil
		}
		for _, e := range mp.entries {
			if _, c := concreteKey(e.k); c {
				continue
			}
			if m.decide(m.equals(mp.kt, e.k, k)) {
				return e
			}
		}
		return nil
	}
	for _, e := range mp.entries {
		if m.decide(m.equals(mp.kt, e.k, k)) {
			return e
		}
	}
	return nil
}

func (m *Machine) mapInsert(mp *Map, k, v Value) {
	if e := m.mapFind(mp, k); e != nil {
		e.v = v
		return
	}
	if ks, ok := k.(Str); ok {
		k = ks.snap() // a map key is hashed when inserted: it does not follow later writes to aliased bytes
	}
	e := &mapEntry{k: copyVal(k), v: v}
	mp.entries = append(mp.entries, e)
	if ck, ok := concreteKey(k); ok {
		mp.idx[ck] = e
	} else {
		mp.symKeys++
	}
}

func (m *Machine) mapDelete(mp *Map, k Value) {
	e := m.mapFind(mp, k)
	if e == nil {
		return
	}
	for i, x := range mp.entries {
		if x == e {
			mp.entries = append(mp.entries[:i:i], mp.entries[i+1:]...)
			break
		}
	}
	if ck, ok := concreteKey(e.k); ok {
		delete(mp.idx, ck)
	} else {
		mp.symKeys--
	}
}

func (m *Machine) lookup(instr *ssa.Lookup, x, idx Value) Value {
	mp := x.(*Map)
	var v Value
	ok := false
	if e := m.mapFind(mp, idx); e != nil {
		v, ok = copyVal(e.v), true
	} else {
		v = zero(instr.X.Type().Underlying().(*types.Map).Elem())
	}
	if instr.CommaOk {
		return Tuple{v, BoolT(ok)}
	}
	return v
}

func (m *Machine) typeAssert(instr *ssa.TypeAssert, itf Iface) Value {
	var v Value
	err := ""
	if itf.T == nil {
		err = fmt.Sprintf("interface conversion: interface is nil, not %s", instr.AssertedType)
	} else if idst, ok := instr.AssertedType.Underlying().(*types.Interface); ok {
		v = itf
		if meth, _ := types.MissingMethod(itf.T, idst, true); meth != nil {
			err = fmt.Sprintf("interface conversion: %v is not %v: missing method %s", itf.T, idst, meth.Name())
		}
	} else if types.Identical(itf.T, instr.AssertedType) {
		v = itf.V
	} else {
		err = fmt.Sprintf("interface conversion: interface is %s, not %s", itf.T, instr.AssertedType)
	}
	if err != "" {
		if !instr.CommaOk {
			panic(targetPanic{Iface{T: m.P.rtErr, V: CStr(err)}})
		}
		return Tuple{zero(instr.AssertedType), TFalse}
	}
	if instr.CommaOk {
		return Tuple{v, TTrue}
	}
	return v
}

func (m *Machine) callBuiltin(caller *frame, callpos token.Pos, fn *ssa.Builtin, args []Value) Value {
	switch fn.Name() {
	case "append":
		if len(args) == 1 {
			return args[0]
		}
		arg0 := args[0].([]Value)
		if s, ok := args[1].(Str); ok {
			for _, b := range s.Bytes() {
				arg0 = append(arg0, b)
			}
			return arg0
		}
		a1 := args[1].([]Value)
		if len(a1) == 0 {
			return arg0
		}
		// copy elements (aggregates must not alias)
		for _, e := range a1 {
			arg0 = append(arg0, copyVal(e))
		}
		return arg0
	case "copy":
		dst := args[0].([]Value)
		if s, ok := args[1].(Str); ok {
			n := len(dst)
			if s.Len() < n {
				n = s.Len()
			}
			for i := 0; i < n; i++ {
				dst[i] = s.At(i)
			}
			return BV(64, uint64(n))
		}
		src := args[1].([]Value)
		n := len(dst)
		if len(src) < n {
			n = len(src)
		}
		tmp := make([]Value, n)
		for i := 0; i < n; i++ {
			tmp[i] = copyVal(src[i])
		}
		copy(dst, tmp)
		return BV(64, uint64(n))
	case "close":
		m.chanClose(args[0].(*Chan))
		return nil
	case "delete":
		mp := args[0].(*Map)
		if mp != nil {
			m.mapDelete(mp, args[1])
		}
		return nil
	case "clear":
		switch x := args[0].(type) {
		case *Map:
			if x != nil {
				x.entries = nil
				x.idx = map[string]*mapEntry{}
				x.symKeys = 0
			}
		case []Value:
			if len(x) > 0 {
				et := fn.Type().(*types.Signature).Params().At(0).Type().Underlying().(*types.Slice).Elem()
				for i := range x {
					x[i] = zero(et)
				}
			}
		}
		return nil
	case "print", "println":
		return nil
	case "len":
		switch x := args[0].(type) {
		case Str:
			return BV(64, uint64(x.Len()))
		case Array:
			return BV(64, uint64(len(x)))
		case *Value:
			return BV(64, uint64(len((*x).(Array))))
		case []Value:
			return BV(64, uint64(len(x)))
		case *Map:
			if x == nil {
				return BV(64, 0)
			}
			if x.symKeys > 0 {
				// length is exact only if symbolic keys are pairwise distinct, which mapFind guarantees
			}
			return BV(64, uint64(len(x.entries)))
		case *Chan:
			if x == nil {
				return BV(64, 0)
			}
			return BV(64, uint64(len(x.buf)))
		}
		panic(fmt.Sprintf("len: illegal operand: %T", args[0]))
	case "cap":
		switch x := args[0].(type) {
		case Array:
			return BV(64, uint64(len(x)))
		case *Value:
			return BV(64, uint64(len((*x).(Array))))
		case []Value:
			return BV(64, uint64(cap(x)))
		case *Chan:
			if x == nil {
				return BV(64, 0)
			}
			return BV(64, uint64(x.cap))
		}
		panic(fmt.Sprintf("cap: illegal operand: %T", args[0]))
	case "min", "max":
		t := fn.Type().(*types.Signature).Params().At(0).Type()
		res := args[0]
		for _, a := range args[1:] {
			var less *Term
			if fn.Name() == "min" {
				less = m.binop(token.LSS, t, t, a, res).(*Term)
			} else {
				less = m.binop(token.GTR, t, t, a, res).(*Term)
			}
			if at, ok := a.(*Term); ok {
				res = Ite(less, at, res.(*Term))
			} else if m.decide(less) {
				res = a
			}
		}
		return res
	case "panic":
		panic(targetPanic{args[0]})
	case "recover":
		return m.doRecover(caller)
	case "ssa:wrapnilchk":
		recv := args[0]
		if p, ok := recv.(*Value); ok && p == nil {
			m.rtPanic(fmt.Sprintf("value method %s.%s called using nil pointer", showValue(args[1]), showValue(args[2])))
		}
		return recv
	case "ssa:deferstack":
		return &caller.defers
	case "SliceData":
		xs := args[0].([]Value)
		if cap(xs) == 0 {
			return (*Value)(nil)
		}
		return &xs[:1][0]
	case "StringData":
		bs := sliceOfStr(args[0].(Str))
		if len(bs) == 0 {
			return (*Value)(nil)
		}
		return &bs[0]
	case "String":
		n := int(m.concInt(args[1]))
		if n == 0 {
			return Str{}
		}
		p := args[0].(*Value)
		if p == nil {
			m.rtPanic("unsafe.String: ptr is nil and len is not zero")
		}
		// the string aliases the bytes it was made from (later writes to them show through)
		return Str{A: unsafe.Slice(p, n)[:n:n]}
	case "Slice":
		n := int(m.concInt(args[1]))
		switch p := args[0].(type) {
		case *ReinterpPtr:
			return m.reinterpSlice(p, n)
		case *Value:
			if p == nil {
				if n != 0 {
					m.rtPanic("unsafe.Slice: ptr is nil and len is not zero")
				}
				return []Value(nil)
			}
			return unsafe.Slice(p, n)[:n:n]
		}
		m.unsupported("unsafe.Slice on %T", args[0])
	case "Add":
		m.unsupported("unsafe.Add")
	}
	panic("unknown built-in: " + fn.Name())
}

// ---- iterators ----

type iter interface {
	next(m *Machine) Tuple
}

type mapIter struct {
	entries []*mapEntry
	i       int
}

func (it *mapIter) next(m *Machine) Tuple {
	if it.i >= len(it.entries) {
		return Tuple{TFalse, nil, nil}
	}
	e := it.entries[it.i]
	it.i++
	return Tuple{TTrue, e.k, copyVal(e.v)}
}

type stringIter struct {
	s Str
	i int
}

func (it *stringIter) next(m *Machine) Tuple {
	if it.i >= it.s.Len() {
		return Tuple{TFalse, BV(64, 0), BV(32, 0)}
	}
	// decode one rune; symbolic bytes: fork on ASCII vs not
	b0 := it.s.At(it.i)
	idx := it.i
	if !b0.IsConst() {
		if m.decide(BVCmp(OpBVUlt, b0, BV(8, 0x80))) {
			it.i++
			return Tuple{TTrue, BV(64, uint64(idx)), Zext(b0, 32)}
		}
		// non-ASCII symbolic: concretise up to 4 bytes
		var bs []byte
		for j := 0; j < 4 && it.i+j < it.s.Len(); j++ {
			bs = append(bs, byte(m.concretize(it.s.At(it.i+j))))
			if utf8.FullRune(bs) {
				break
			}
		}
		r, n := utf8.DecodeRune(bs)
		it.i += n
		return Tuple{TTrue, BV(64, uint64(idx)), BV(32, uint64(r))}
	}
	var bs []byte
	for j := 0; j < 4 && it.i+j < it.s.Len(); j++ {
		bs = append(bs, byte(m.concretize(it.s.At(it.i+j))))
		if utf8.FullRune(bs) {
			break
		}
	}
	r, n := utf8.DecodeRune(bs)
	it.i += n
	return Tuple{TTrue, BV(64, uint64(idx)), BV(32, uint64(r))}
}

func (m *Machine) rangeIter(x Value, t types.Type) iter {
	switch x := x.(type) {
	case *Map:
		if x == nil {
			return &mapIter{}
		}
		es := append([]*mapEntry(nil), x.entries...)
		if m.mapOrder && len(es) > 1 && len(es) <= 3 {
			// fork over permutations
			n := len(es)
			perm := make([]*mapEntry, 0, n)
			rest := es
			for len(rest) > 1 {
				k := int(m.choose("maporder", len(rest)))
				perm = append(perm, rest[k])
				rest = append(append([]*mapEntry(nil), rest[:k]...), rest[k+1:]...)
			}
			perm = append(perm, rest[0])
			es = perm
		}
		return &mapIter{entries: es}
	case Str:
		return &stringIter{s: x}
	}
	panic(fmt.Sprintf("cannot range over %T", x))
}

// ---- conversions ----

func (m *Machine) conv(tdst, tsrc types.Type, x Value) Value {
	ud := tdst.Underlying()
	us := tsrc.Underlying()
	switch us := us.(type) {
	case *types.Pointer:
		switch ud := ud.(type) {
		case *types.Basic:
			if ud.Kind() == types.UnsafePointer {
				return UPtr{P: x.(*Value), T: us.Elem()}
			}
		case *types.Pointer:
			return x
		}
	case *types.Slice:
		// []byte/[]rune -> string
		if db, ok := ud.(*types.Basic); ok && db.Info()&types.IsString != 0 {
			xs := x.([]Value)
			eb := us.Elem().Underlying().(*types.Basic)
			if eb.Kind() == types.Uint8 {
				ts := make([]*Term, len(xs))
				for i, v := range xs {
					ts[i] = v.(*Term)
				}
				if len(ts) == 0 {
					return Str{}
				}
				return StrFromTerms(ts)
			}
			// runes
			var out []byte
			for _, v := range xs {
				r := rune(m.concInt(v))
				out = utf8.AppendRune(out, r)
			}
			return CStr(string(out))
		}
		return x
	case *types.Basic:
		if us.Kind() == types.UnsafePointer {
			switch ud := ud.(type) {
			case *types.Pointer:
				u := x.(UPtr)
				if u.T != nil && !types.Identical(u.T.Underlying(), ud.Elem().Underlying()) && (u.P != nil || u.S != nil) {
					if fb, tb := basicOf(u.T), basicOf(ud.Elem()); fb != nil && tb != nil && fb.Info()&types.IsInteger != 0 && tb.Info()&types.IsInteger != 0 {
						return &ReinterpPtr{U: u, To: ud.Elem()}
					}
				}
				if u.P != nil {
					return u.P
				}
				if u.S != nil {
					// pointer to first element viewed as another type: only same-typed arrays handled
					if at, ok := ud.Elem().Underlying().(*types.Array); ok {
						n := int(at.Len())
						if n <= len(u.S) {
							var v Value = Array(u.S[:n:n])
							return &v
						}
					}
					return &u.S[0]
				}
				return (*Value)(nil)
			case *types.Basic:
				if ud.Kind() == types.UnsafePointer {
					return x
				}
				if ud.Kind() == types.Uintptr {
					u := x.(UPtr)
					if u.P == nil && u.S == nil {
						return BV(64, 0)
					}
					return BV(64, 0xdead0000)
				}
			}
			m.unsupported("conversion from unsafe.Pointer to %s", tdst)
		}
		if us.Info()&types.IsString != 0 {
			s := x.(Str)
			if dsl, ok := ud.(*types.Slice); ok {
				eb := dsl.Elem().Underlying().(*types.Basic)
				if eb.Kind() == types.Uint8 {
					bs := s.Bytes()
					out := make([]Value, len(bs))
					for i, b := range bs {
						out[i] = b
					}
					return out
				}
				// []rune
				cs, ok := s.Concrete()
				if !ok {
					// concretise bytes
					var bb []byte
					for _, b := range s.Bytes() {
						bb = append(bb, byte(m.concretize(b)))
					}
					cs = string(bb)
				}
				var out []Value
				for _, r := range cs {
					out = append(out, BV(32, uint64(r)))
				}
				if out == nil {
					out = []Value{}
				}
				return out
			}
			if db, ok := ud.(*types.Basic); ok && db.Info()&types.IsString != 0 {
				return x
			}
		}
		if us.Info()&types.IsInteger != 0 {
			xt := x.(*Term)
			if db, ok := ud.(*types.Basic); ok {
				if w, _, ok := intWidth(db.Kind()); ok {
					if us.Info()&types.IsUnsigned != 0 {
						return Zext(xt, w)
					}
					return Sext(xt, w)
				}
				switch db.Kind() {
				case types.Float32, types.Float64:
					fw := 64
					if db.Kind() == types.Float32 {
						fw = 32
					}
					if xt.IsConst() {
						if us.Info()&types.IsUnsigned != 0 {
							return FPConst(fw, float64(xt.C))
						}
						return FPConst(fw, float64(xt.S()))
					}
					op := OpSIToFP
					if us.Info()&types.IsUnsigned != 0 {
						op = OpUIToFP
					}
					return mk(op, SFP(fw), xt)
				case types.String:
					r := rune(m.concInt(xt))
					return CStr(string(r))
				case types.UnsafePointer:
					return UPtr{}
				}
			}
		}
		if us.Info()&types.IsFloat != 0 {
			xt := x.(*Term)
			if db, ok := ud.(*types.Basic); ok {
				if w, sgn, ok := intWidth(db.Kind()); ok {
					if xt.IsConst() {
						f := xt.Float()
						if sgn {
							return BV(w, uint64(int64(f)))
						}
						if f < 0 {
							return BV(w, uint64(int64(f)))
						}
						return BV(w, uint64(f))
					}
					op := OpFPToSI
					if !sgn {
						op = OpFPToUI
					}
					return mk(op, SBV(w), xt)
				}
				switch db.Kind() {
				case types.Float32:
					if xt.Sort.W == 32 {
						return xt
					}
					if xt.IsConst() {
						return FPConst(32, xt.Float())
					}
					return mk(OpFPToFP, SFP(32), xt)
				case types.Float64:
					if xt.Sort.W == 64 {
						return xt
					}
					if xt.IsConst() {
						return FPConst(64, xt.Float())
					}
					return mk(OpFPToFP, SFP(64), xt)
				}
			}
		}
		if us.Info()&types.IsBoolean != 0 {
			return x
		}
	}
	if types.Identical(ud, us) {
		return x
	}
	panic(fmt.Sprintf("unsupported conversion: %s -> %s", tsrc, tdst))
}

var _ = math.Abs

// ReinterpPtr is a pointer obtained by casting *T1 -> unsafe.Pointer -> *T2 for integer types.
type ReinterpPtr struct {
	U  UPtr
	To types.Type
}

// reinterpSlice implements unsafe.Slice((*T2)(unsafe.Pointer(&x)), n): a little-endian view of the
// integer cells as n elements of the narrower type (a copy: writes through the view are not supported).
func (m *Machine) reinterpSlice(p *ReinterpPtr, n int) Value {
	fw, _, _ := intWidth(basicOf(p.U.T).Kind())
	tw, _, _ := intWidth(basicOf(p.To).Kind())
	if tw > fw || fw%tw != 0 {
		m.unsupported("unsafe reinterpretation %s -> %s", p.U.T, p.To)
	}
	var cells []Value
	if p.U.S != nil {
		cells = p.U.S
	} else {
		cells = []Value{*p.U.P}
	}
	per := fw / tw
	out := make([]Value, n)
	for i := 0; i < n; i++ {
		ci := i / per
		if ci >= len(cells) {
			// beyond the extent of the variable (undefined behaviour natively): unconstrained-as-zero, recorded
			m.stubs["unsafe.Slice view beyond the variable's extent (bytes read as 0)"]++
			out[i] = BV(tw, 0)
			continue
		}
		c := cells[ci].(*Term)
		k := i % per
		out[i] = Extract(c, (k+1)*tw-1, k*tw)
	}
	return out
}
