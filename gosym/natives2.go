package main

import (
	"bytes"
	"encoding/json"
	"fmt"
	"go/token"
	"go/types"
	"os"
	"path/filepath"
	"strings"
	"text/template"
)

func (m *Machine) nativeStringMap(v Value) map[string]string {
	out := map[string]string{}
	iv, ok := v.(Iface)
	if ok {
		v = iv.V
	}
	mp, ok := v.(*Map)
	if !ok || mp == nil {
		return out
	}
	for _, e := range mp.entries {
		out[m.concStr(e.k, "template data key")] = m.concStr(e.v, "template data value")
	}
	return out
}

func init() {
	// text/template on concrete text: the real library, called natively
	reg("text/template.New", func(m *Machine, fr *frame, a []Value) Value {
		return &Native{V: template.New(m.concStr(a[0], "template.New"))}
	})
	reg("(*text/template.Template).Option", func(m *Machine, fr *frame, a []Value) Value {
		t := a[0].(*Native).V.(*template.Template)
		var opts []string
		for _, o := range a[1].([]Value) {
			opts = append(opts, m.concStr(o, "Template.Option"))
		}
		return &Native{V: t.Option(opts...)}
	})
	// Funcs: the function values live in the interpreter and cannot be handed to the native library; the
	// names are registered with native stand-ins (the real strings functions where the name says so, otherwise
	// a function that fails when a template actually calls it)
	reg("(*text/template.Template).Funcs", func(m *Machine, fr *frame, a []Value) Value {
		t := a[0].(*Native).V.(*template.Template)
		fm := template.FuncMap{}
		known := map[string]any{"ToLower": strings.ToLower, "ToUpper": strings.ToUpper, "Replace": strings.Replace,
			"Trim": strings.Trim, "TrimLeft": strings.TrimLeft, "TrimRight": strings.TrimRight, "TrimPrefix": strings.TrimPrefix,
			"TrimSuffix": strings.TrimSuffix, "TrimSpace": strings.TrimSpace, "lower": strings.ToLower, "upper": strings.ToUpper}
		if mp, ok := a[1].(*Map); ok && mp != nil {
			for _, e := range mp.entries {
				name, ok := e.k.(Str).Concrete()
				if !ok {
					continue
				}
				if f, ok := known[name]; ok {
					fm[name] = f
				} else {
					n := name
					fm[n] = func(args ...any) (string, error) { return "", fmt.Errorf("template function %s is not modelled", n) }
				}
			}
		}
		return &Native{V: t.Funcs(fm)}
	})
	reg("(*text/template.Template).Parse", func(m *Machine, fr *frame, a []Value) Value {
		t := a[0].(*Native).V.(*template.Template)
		r, err := t.Parse(m.concStr(a[1], "Template.Parse"))
		if err != nil {
			return Tuple{(*Native)(nil), mkErr(m, CStr(err.Error()))}
		}
		return Tuple{&Native{V: r}, Iface{}}
	})
	reg("(*text/template.Template).Execute", func(m *Machine, fr *frame, a []Value) Value {
		t := a[0].(*Native).V.(*template.Template)
		data := m.nativeStringMap(a[2])
		var buf bytes.Buffer
		if err := t.Execute(&buf, data); err != nil {
			return mkErr(m, CStr(err.Error()))
		}
		w := a[1].(Iface)
		wr := m.findMethod(w.T, "Write")
		m.call(fr, token.NoPos, wr, []Value{w.V, sliceOfStr(CStr(buf.String()))})
		return Iface{}
	})
	// math/rand: only used for template names and jitter; deterministic stand-in
	reg("math/rand.NewSource", func(m *Machine, fr *frame, a []Value) Value { return Iface{} })
	reg("math/rand.New", func(m *Machine, fr *frame, a []Value) Value { return &Native{V: "rand"} })
	reg("(*math/rand.Rand).Uint64", func(m *Machine, fr *frame, a []Value) Value { return BV(64, 4242) })
	reg("(*math/rand.Rand).Int63", func(m *Machine, fr *frame, a []Value) Value { return BV(64, 4242) })
	reg("(*math/rand.Rand).Intn", func(m *Machine, fr *frame, a []Value) Value { return BV(64, 0) })
	reg("math/rand.Intn", func(m *Machine, fr *frame, a []Value) Value { return BV(64, 0) })
	reg("math/rand.Float64", func(m *Machine, fr *frame, a []Value) Value { return FPConst(64, 0.5) })

	reg(vrtPath+".RepoFile", func(m *Machine, fr *frame, a []Value) Value {
		data, err := os.ReadFile(filepath.Join(repoDir, argStr(m, a[0])))
		if err != nil {
			m.end(OutInternal, "RepoFile: %v", err)
		}
		return CStr(string(data))
	})
}

func init() {
	// protobuf (de)serialisation is third-party reflection code: opaque
	reg("google.golang.org/protobuf/proto.Marshal", func(m *Machine, fr *frame, a []Value) Value {
		m.stubs["opaque:proto.Marshal"]++
		return Tuple{sliceOfStr(CStr("<protobuf>")), Iface{}}
	})
}

func init() {
	// encoding/json.Unmarshal into *string: native on concrete text; on symbolic bytes only the plain
	// case "<printable ASCII without quote/backslash>" is modelled (anything else is unsupported).
	reg("encoding/json.Unmarshal", func(m *Machine, fr *frame, a []Value) Value {
		data := strOfSlice(a[0].([]Value))
		tgt := a[1].(Iface)
		ptr, ok := tgt.V.(*Value)
		if !ok || ptr == nil {
			m.unsupported("json.Unmarshal into %s", tgt.T)
		}
		if _, isStr := (*ptr).(Str); !isStr {
			m.unsupported("json.Unmarshal into %s", tgt.T)
		}
		if cs, ok := data.Concrete(); ok {
			var out string
			if err := json.Unmarshal([]byte(cs), &out); err != nil {
				return mkErr(m, CStr(err.Error()))
			}
			*ptr = CStr(out)
			return Iface{}
		}
		bs := data.Bytes()
		n := len(bs)
		if n < 2 || !bs[0].IsConst() || bs[0].C != '"' || !bs[n-1].IsConst() || bs[n-1].C != '"' {
			m.unsupported("json.Unmarshal of symbolic text that is not a quoted string")
		}
		for _, b := range bs[1 : n-1] {
			plain := AndAll([]*Term{BVCmp(OpBVUle, BV(8, 0x20), b), BVCmp(OpBVUlt, b, BV(8, 0x80)), Not(Eq(b, BV(8, '"'))), Not(Eq(b, BV(8, '\\')))})
			if !m.decide(plain) {
				m.unsupported("json.Unmarshal of a symbolic string with escapes/control/non-ASCII bytes")
			}
		}
		m.stubs["model:json.Unmarshal(plain quoted ASCII string)"]++
		*ptr = StrFromTerms(append([]*Term(nil), bs[1:n-1]...))
		return Iface{}
	})
}

func init() {
	// context.WithValue checks key comparability through reflectlite; the model builds the valueCtx directly
	reg("context.WithValue", func(m *Machine, fr *frame, a []Value) Value {
		parent := a[0].(Iface)
		if parent.T == nil {
			panic(targetPanic{Iface{T: m.P.rtErr, V: CStr("cannot create context from nil parent")}})
		}
		if a[1].(Iface).T == nil {
			panic(targetPanic{Iface{T: m.P.rtErr, V: CStr("nil key")}})
		}
		t := m.P.pkgs["context"].Type("valueCtx").Object().Type()
		var cell Value = Struct{parent, a[1], a[2]}
		return Iface{T: types.NewPointer(t), V: &cell}
	})
}

func init() {
	// reflect.ValueOf(x).IsNil(): the only reflection idiom of qryn's planners (nil-ness of AST nodes).
	// The Value carries the interface in its pointer word; every other reflect.Value method is unsupported.
	reg("reflect.ValueOf", func(m *Machine, fr *frame, a []Value) Value {
		var cell Value = a[0]
		return Struct{(*Value)(nil), UPtr{P: &cell}, BV(64, 0)}
	})
	reg("(reflect.Value).IsValid", func(m *Machine, fr *frame, a []Value) Value {
		iv := *(a[0].(Struct)[1].(UPtr).P)
		return BoolT(iv.(Iface).T != nil)
	})
	reg("(reflect.Value).IsNil", func(m *Machine, fr *frame, a []Value) Value {
		iv := (*(a[0].(Struct)[1].(UPtr).P)).(Iface)
		if iv.T == nil {
			panic(targetPanic{Iface{T: m.P.rtErr, V: CStr("reflect: call of reflect.Value.IsNil on zero Value")}})
		}
		switch v := iv.V.(type) {
		case *Value:
			return BoolT(v == nil)
		case *Map:
			return BoolT(v == nil)
		case []Value:
			return BoolT(v == nil)
		case *Chan:
			return BoolT(v == nil)
		case *Native:
			return BoolT(v == nil)
		case Iface:
			return BoolT(v.T == nil)
		case UPtr:
			return BoolT(v.P == nil && v.S == nil)
		}
		if isNilFunc(iv.V) {
			return TTrue
		}
		switch iv.T.Underlying().(type) {
		case *types.Signature:
			return TFalse
		}
		panic(targetPanic{Iface{T: m.P.rtErr, V: CStr("reflect: call of reflect.Value.IsNil on " + iv.T.String() + " Value")}})
	})
}

// ---- sync.Map model: an association list; key comparison forks on symbolic keys ----

type syncMapEntry struct{ k, v Iface }
type syncMapState struct{ ents []syncMapEntry }

func (m *Machine) sideSyncMap(p *Value) *syncMapState {
	if s, ok := m.side[p]; ok {
		return s.(*syncMapState)
	}
	s := &syncMapState{}
	m.side[p] = s
	return s
}

func (m *Machine) syncMapFind(s *syncMapState, k Iface) int {
	for i, e := range s.ents {
		if m.decide(m.equals(nil, e.k, k)) {
			return i
		}
	}
	return -1
}

func init() {
	reg("(*sync.Map).Load", func(m *Machine, fr *frame, a []Value) Value {
		s := m.sideSyncMap(a[0].(*Value))
		if i := m.syncMapFind(s, a[1].(Iface)); i >= 0 {
			return Tuple{s.ents[i].v, TTrue}
		}
		return Tuple{Iface{}, TFalse}
	})
	reg("(*sync.Map).Store", func(m *Machine, fr *frame, a []Value) Value {
		s := m.sideSyncMap(a[0].(*Value))
		if i := m.syncMapFind(s, a[1].(Iface)); i >= 0 {
			s.ents[i].v = a[2].(Iface)
		} else {
			s.ents = append(s.ents, syncMapEntry{a[1].(Iface), a[2].(Iface)})
		}
		return nil
	})
	reg("(*sync.Map).LoadOrStore", func(m *Machine, fr *frame, a []Value) Value {
		s := m.sideSyncMap(a[0].(*Value))
		if i := m.syncMapFind(s, a[1].(Iface)); i >= 0 {
			return Tuple{s.ents[i].v, TTrue}
		}
		s.ents = append(s.ents, syncMapEntry{a[1].(Iface), a[2].(Iface)})
		return Tuple{a[2].(Iface), TFalse}
	})
	del := func(m *Machine, fr *frame, a []Value) Value {
		s := m.sideSyncMap(a[0].(*Value))
		if i := m.syncMapFind(s, a[1].(Iface)); i >= 0 {
			v := s.ents[i].v
			s.ents = append(append([]syncMapEntry(nil), s.ents[:i]...), s.ents[i+1:]...)
			return Tuple{v, TTrue}
		}
		return Tuple{Iface{}, TFalse}
	}
	reg("(*sync.Map).LoadAndDelete", del)
	reg("(*sync.Map).Delete", func(m *Machine, fr *frame, a []Value) Value { del(m, fr, a); return nil })
	reg("(*sync.Map).Range", func(m *Machine, fr *frame, a []Value) Value {
		s := m.sideSyncMap(a[0].(*Value))
		for _, e := range append([]syncMapEntry(nil), s.ents...) {
			r := m.call(fr, token.NoPos, a[1], []Value{e.k, e.v}).(*Term)
			if !m.decide(r) {
				break
			}
		}
		return nil
	})
	reg("(*sync.Map).Clear", func(m *Machine, fr *frame, a []Value) Value {
		m.sideSyncMap(a[0].(*Value)).ents = nil
		return nil
	})
}

func init() {
	// valyala/fastjson converts between string and []byte through reflect.StringHeader/SliceHeader
	reg("github.com/valyala/fastjson.s2b", func(m *Machine, fr *frame, a []Value) Value {
		s := a[0].(Str)
		if s.A != nil {
			return s.A
		}
		if s.Len() == 0 {
			return []Value(nil)
		}
		return sliceOfStr(s)
	})
	reg("github.com/valyala/fastjson.b2s", func(m *Machine, fr *frame, a []Value) Value {
		b := a[0].([]Value)
		if len(b) == 0 {
			return Str{}
		}
		return Str{A: b[:len(b):len(b)]}
	})
}

func init() {
	// go-faster/errors.wrapError.Error() is fmt.Sprint(e), which goes through fmt.Formatter (not modelled):
	// the text is "msg: inner error" (what FormatError prints for %v)
	reg("(*github.com/go-faster/errors.wrapError).Error", func(m *Machine, fr *frame, a []Value) Value {
		p, _ := a[0].(*Value)
		if p == nil {
			m.rtPanic("invalid memory address or nil pointer dereference")
		}
		st := (*p).(Struct)
		out := st[0].(Str)
		if inner, ok := st[1].(Iface); ok && inner.T != nil {
			if fn := m.findMethod(inner.T, "Error"); fn != nil {
				s := m.call(fr, token.NoPos, fn, []Value{inner.V}).(Str)
				out = StrConcat(StrConcat(out, CStr(": ")), s)
			}
		}
		return out
	})
}

func init() {
	cmp := func(a, b Str) Value {
		return Ite(StrLess(a, b), BV(64, ^uint64(0)), Ite(StrEq(a, b), BV(64, 0), BV(64, 1)))
	}
	reg("strings.Compare", func(m *Machine, fr *frame, a []Value) Value { return cmp(a[0].(Str), a[1].(Str)) })
	reg("internal/bytealg.abigen_runtime_cmpstring", func(m *Machine, fr *frame, a []Value) Value {
		return cmp(a[0].(Str), a[1].(Str))
	})
}

func init() {
	// the JSON text of an error body is not the subject of any property: Encode writes one placeholder chunk
	reg("(*encoding/json.Encoder).Encode", func(m *Machine, fr *frame, a []Value) Value {
		m.stubs["opaque:json.Encoder.Encode (writes a placeholder body)"]++
		p, _ := a[0].(*Value)
		if p != nil {
			if st, ok := (*p).(Struct); ok && len(st) > 0 {
				if w, ok := st[0].(Iface); ok && w.T != nil {
					if fn := m.findMethod(w.T, "Write"); fn != nil {
						m.call(fr, token.NoPos, fn, []Value{w.V, sliceOfStr(CStr("{}\n"))})
					}
				}
			}
		}
		return Iface{}
	})
}

func init() {
	reg(vrtPath+".ExpectBackgroundGoroutines", func(m *Machine, fr *frame, a []Value) Value { return nil })
	reg(vrtPath+".Option", func(m *Machine, fr *frame, a []Value) Value {
		m.opts[argStr(m, a[0])] = 1
		return nil
	})
	// the LogQL text parser is a participle grammar (reflection): opt-in stub that returns an empty script
	reg("github.com/metrico/qryn/reader/logql/logql_parser.Parse", func(m *Machine, fr *frame, a []Value) Value {
		if m.opts["opaque-logql-parser"] != 1 {
			m.unsupported("logql_parser.Parse (participle grammar) - not executable; hand-build the AST")
		}
		m.stubs["opaque:logql_parser.Parse returns an empty script (harness option; a planner plugin replaces the chain)"]++
		t := m.P.pkgs["github.com/metrico/qryn/reader/logql/logql_parser"].Type("LogQLScript").Object().Type()
		var cell Value = zero(t)
		return Tuple{&cell, Iface{}}
	})
}
