package main

import (
	"bytes"
	"go/token"
	"os"
	"path/filepath"
	"text/template"
)

func (m *Machine) nativeStringMap(v Value) map[string]string {
	out := map[string]string{}
	iv, ok := v.(Iface)
	if ok {
		v = iv.V
	}
	mp, ok := v.(*Map)
	if !ok || mp == nil {
		return out
	}
	for _, e := range mp.entries {
		out[m.concStr(e.k, "template data key")] = m.concStr(e.v, "template data value")
	}
	return out
}

func init() {
	// text/template on concrete text: the real library, called natively
	reg("text/template.New", func(m *Machine, fr *frame, a []Value) Value {
		return &Native{V: template.New(m.concStr(a[0], "template.New"))}
	})
	reg("(*text/template.Template).Parse", func(m *Machine, fr *frame, a []Value) Value {
		t := a[0].(*Native).V.(*template.Template)
		r, err := t.Parse(m.concStr(a[1], "Template.Parse"))
		if err != nil {
			return Tuple{(*Native)(nil), mkErr(m, CStr(err.Error()))}
		}
		return Tuple{&Native{V: r}, Iface{}}
	})
	reg("(*text/template.Template).Execute", func(m *Machine, fr *frame, a []Value) Value {
		t := a[0].(*Native).V.(*template.Template)
		data := m.nativeStringMap(a[2])
		var buf bytes.Buffer
		if err := t.Execute(&buf, data); err != nil {
			return mkErr(m, CStr(err.Error()))
		}
		w := a[1].(Iface)
		wr := m.findMethod(w.T, "Write")
		m.call(fr, token.NoPos, wr, []Value{w.V, sliceOfStr(CStr(buf.String()))})
		return Iface{}
	})
	// math/rand: only used for template names and jitter; deterministic stand-in
	reg("math/rand.NewSource", func(m *Machine, fr *frame, a []Value) Value { return Iface{} })
	reg("math/rand.New", func(m *Machine, fr *frame, a []Value) Value { return &Native{V: "rand"} })
	reg("(*math/rand.Rand).Uint64", func(m *Machine, fr *frame, a []Value) Value { return BV(64, 4242) })
	reg("(*math/rand.Rand).Int63", func(m *Machine, fr *frame, a []Value) Value { return BV(64, 4242) })
	reg("(*math/rand.Rand).Intn", func(m *Machine, fr *frame, a []Value) Value { return BV(64, 0) })
	reg("math/rand.Intn", func(m *Machine, fr *frame, a []Value) Value { return BV(64, 0) })
	reg("math/rand.Float64", func(m *Machine, fr *frame, a []Value) Value { return FPConst(64, 0.5) })

	reg(vrtPath+".RepoFile", func(m *Machine, fr *frame, a []Value) Value {
		data, err := os.ReadFile(filepath.Join(repoDir, argStr(m, a[0])))
		if err != nil {
			m.end(OutInternal, "RepoFile: %v", err)
		}
		return CStr(string(data))
	})
}

func init() {
	// protobuf (de)serialisation is third-party reflection code: opaque
	reg("google.golang.org/protobuf/proto.Marshal", func(m *Machine, fr *frame, a []Value) Value {
		m.stubs["opaque:proto.Marshal"]++
		return Tuple{sliceOfStr(CStr("<protobuf>")), Iface{}}
	})
}
