package main

// SMT term DAG with eager constant folding. Integers are bit-vectors with Go's
// wrap-around semantics; bools are Bool; floats are FloatingPoint (rarely symbolic).

import (
	"fmt"
	"math"
	"math/bits"
	"strings"
)

type SortKind uint8

const (
	KBool SortKind = iota
	KBV
	KFP
)

type Sort struct {
	K SortKind
	W int // bit width for BV; 32/64 for FP
}

func (s Sort) String() string {
	switch s.K {
	case KBool:
		return "Bool"
	case KBV:
		return fmt.Sprintf("(_ BitVec %d)", s.W)
	case KFP:
		if s.W == 32 {
			return "(_ FloatingPoint 8 24)"
		}
		return "(_ FloatingPoint 11 53)"
	}
	return "?"
}

var SBool = Sort{KBool, 0}

func SBV(w int) Sort { return Sort{KBV, w} }
func SFP(w int) Sort { return Sort{KFP, w} }

type Op uint8

const (
	OpConst Op = iota // BV/Bool/FP constant in C (FP: IEEE bits)
	OpVar             // declared constant Name
	OpNot
	OpAnd
	OpOr
	OpEq
	OpIte
	OpBVAdd
	OpBVSub
	OpBVMul
	OpBVUDiv
	OpBVSDiv
	OpBVURem
	OpBVSRem
	OpBVAnd
	OpBVOr
	OpBVXor
	OpBVNot
	OpBVNeg
	OpBVShl
	OpBVLshr
	OpBVAshr
	OpBVUlt
	OpBVUle
	OpBVSlt
	OpBVSle
	OpExtract // P1=hi P2=lo
	OpConcat
	OpZext // P1 = extra bits
	OpSext
	OpUF // Name(args) uninterpreted
	OpFAdd
	OpFSub
	OpFMul
	OpFDiv
	OpFNeg
	OpFLt
	OpFLe
	OpFEq
	OpFIsNaN
	OpSIToFP // signed bv -> fp
	OpUIToFP
	OpFPToSI // P1 = target width
	OpFPToUI
	OpFPToFP // fp -> fp other width
	OpFPBits // fp -> bv (IEEE bits) modelled via fresh var + constraint (unsupported for symbolic)
)

type Term struct {
	Op     Op
	Sort   Sort
	Args   []*Term
	C      uint64
	Name   string
	P1, P2 int
	id     int // 0 = not yet numbered in the current builder
	size   int
}

func (t *Term) IsConst() bool { return t.Op == OpConst }

var (
	TTrue  = &Term{Op: OpConst, Sort: SBool, C: 1}
	TFalse = &Term{Op: OpConst, Sort: SBool, C: 0}
)

func mask(w int) uint64 {
	if w >= 64 {
		return ^uint64(0)
	}
	return (uint64(1) << uint(w)) - 1
}

func BV(w int, v uint64) *Term { return &Term{Op: OpConst, Sort: SBV(w), C: v & mask(w)} }
func BoolT(b bool) *Term {
	if b {
		return TTrue
	}
	return TFalse
}
func FPConst(w int, f float64) *Term {
	if w == 32 {
		return &Term{Op: OpConst, Sort: SFP(32), C: uint64(math.Float32bits(float32(f)))}
	}
	return &Term{Op: OpConst, Sort: SFP(64), C: math.Float64bits(f)}
}
func (t *Term) Float() float64 {
	if t.Sort.W == 32 {
		return float64(math.Float32frombits(uint32(t.C)))
	}
	return math.Float64frombits(t.C)
}

func Var(name string, s Sort) *Term { return &Term{Op: OpVar, Sort: s, Name: name} }

// signed value of constant
func (t *Term) S() int64 {
	w := t.Sort.W
	if w >= 64 {
		return int64(t.C)
	}
	if t.C&(1<<uint(w-1)) != 0 {
		return int64(t.C | ^mask(w))
	}
	return int64(t.C)
}

func mk(op Op, s Sort, args ...*Term) *Term {
	sz := 1
	for _, a := range args {
		sz += a.size
	}
	return &Term{Op: op, Sort: s, Args: args, size: sz}
}

func Not(a *Term) *Term {
	if a.IsConst() {
		return BoolT(a.C == 0)
	}
	if a.Op == OpNot {
		return a.Args[0]
	}
	return mk(OpNot, SBool, a)
}

func And(a, b *Term) *Term {
	if a.IsConst() {
		if a.C == 0 {
			return TFalse
		}
		return b
	}
	if b.IsConst() {
		if b.C == 0 {
			return TFalse
		}
		return a
	}
	if a == b {
		return a
	}
	return mk(OpAnd, SBool, a, b)
}

func Or(a, b *Term) *Term {
	if a.IsConst() {
		if a.C == 1 {
			return TTrue
		}
		return b
	}
	if b.IsConst() {
		if b.C == 1 {
			return TTrue
		}
		return a
	}
	if a == b {
		return a
	}
	return mk(OpOr, SBool, a, b)
}

func AndAll(ts []*Term) *Term {
	r := TTrue
	for _, t := range ts {
		r = And(r, t)
	}
	return r
}

func Eq(a, b *Term) *Term {
	if a == b {
		if a.Sort.K != KFP {
			return TTrue
		}
	}
	if a.Sort != b.Sort {
		panic(fmt.Sprintf("Eq sort mismatch %v %v", a.Sort, b.Sort))
	}
	if a.IsConst() && b.IsConst() {
		if a.Sort.K == KFP {
			return BoolT(a.Float() == b.Float())
		}
		return BoolT(a.C == b.C)
	}
	if a.Sort.K == KFP {
		return mk(OpFEq, SBool, a, b)
	}
	if a.Sort.K == KBool {
		if a.IsConst() {
			if a.C == 1 {
				return b
			}
			return Not(b)
		}
		if b.IsConst() {
			if b.C == 1 {
				return a
			}
			return Not(a)
		}
	}
	// ite(c, k1, k2) == k  simplification
	if b.IsConst() && a.Op == OpIte && a.Args[1].IsConst() && a.Args[2].IsConst() {
		t, e := a.Args[1].C == b.C, a.Args[2].C == b.C
		switch {
		case t && e:
			return TTrue
		case t && !e:
			return a.Args[0]
		case !t && e:
			return Not(a.Args[0])
		default:
			return TFalse
		}
	}
	if a.IsConst() && !b.IsConst() {
		return Eq(b, a)
	}
	return mk(OpEq, SBool, a, b)
}

func Ite(c, a, b *Term) *Term {
	if c.IsConst() {
		if c.C == 1 {
			return a
		}
		return b
	}
	if a == b {
		return a
	}
	if a.Sort != b.Sort {
		panic(fmt.Sprintf("Ite sort mismatch %v %v", a.Sort, b.Sort))
	}
	if a.IsConst() && b.IsConst() && a.C == b.C && a.Sort.K != KFP {
		return a
	}
	if a.Sort.K == KBool {
		if a.IsConst() && b.IsConst() {
			if a.C == 1 {
				return c
			}
			return Not(c)
		}
	}
	return mk(OpIte, a.Sort, c, a, b)
}

func sx(v uint64, w int) int64 {
	if w >= 64 {
		return int64(v)
	}
	if v&(1<<uint(w-1)) != 0 {
		return int64(v | ^mask(w))
	}
	return int64(v)
}

// BVBin builds a bit-vector binary op with folding.
func BVBin(op Op, a, b *Term) *Term {
	w := a.Sort.W
	if a.Sort != b.Sort {
		panic(fmt.Sprintf("BVBin sort mismatch op=%d %v %v", op, a.Sort, b.Sort))
	}
	if a.IsConst() && b.IsConst() {
		x, y := a.C, b.C
		var r uint64
		switch op {
		case OpBVAdd:
			r = x + y
		case OpBVSub:
			r = x - y
		case OpBVMul:
			r = x * y
		case OpBVUDiv:
			if y == 0 {
				r = mask(w)
			} else {
				r = x / y
			}
		case OpBVURem:
			if y == 0 {
				r = x
			} else {
				r = x % y
			}
		case OpBVSDiv:
			sxv, syv := sx(x, w), sx(y, w)
			if syv == 0 {
				if sxv < 0 {
					r = 1
				} else {
					r = mask(w)
				}
			} else if syv == -1 {
				r = uint64(-sxv)
			} else {
				r = uint64(sxv / syv)
			}
		case OpBVSRem:
			sxv, syv := sx(x, w), sx(y, w)
			if syv == 0 {
				r = x
			} else if syv == -1 {
				r = 0
			} else {
				r = uint64(sxv % syv)
			}
		case OpBVAnd:
			r = x & y
		case OpBVOr:
			r = x | y
		case OpBVXor:
			r = x ^ y
		case OpBVShl:
			if y >= uint64(w) {
				r = 0
			} else {
				r = x << y
			}
		case OpBVLshr:
			if y >= uint64(w) {
				r = 0
			} else {
				r = x >> y
			}
		case OpBVAshr:
			s := sx(x, w)
			if y >= uint64(w) {
				if s < 0 {
					r = mask(w)
				} else {
					r = 0
				}
			} else {
				r = uint64(s >> y)
			}
		default:
			panic("BVBin op")
		}
		return BV(w, r)
	}
	// identities
	switch op {
	case OpBVAdd:
		if a.IsConst() && a.C == 0 {
			return b
		}
		if b.IsConst() && b.C == 0 {
			return a
		}
		// (x + c1) + c2 => x + (c1+c2): keeps the internal/unix epoch shifts of package time from piling up
		if a.IsConst() && !b.IsConst() {
			a, b = b, a
		}
		if b.IsConst() && a.Op == OpBVAdd && a.Args[1].IsConst() {
			return BVBin(OpBVAdd, a.Args[0], BV(w, a.Args[1].C+b.C))
		}
		if b.IsConst() && a.Op == OpBVAdd && a.Args[0].IsConst() {
			return BVBin(OpBVAdd, a.Args[1], BV(w, a.Args[0].C+b.C))
		}
	case OpBVSub:
		if b.IsConst() && b.C == 0 {
			return a
		}
		if a == b {
			return BV(w, 0)
		}
		if b.IsConst() {
			return BVBin(OpBVAdd, a, BV(w, -b.C))
		}
		// (x + c) - r => (x - r) + c: constants move outward so that they meet and cancel
		if a.Op == OpBVAdd && a.Args[1].IsConst() && !b.IsConst() {
			return BVBin(OpBVAdd, BVBin(OpBVSub, a.Args[0], b), a.Args[1])
		}
	case OpBVMul:
		if a.IsConst() {
			if a.C == 0 {
				return a
			}
			if a.C == 1 {
				return b
			}
		}
		if b.IsConst() {
			if b.C == 0 {
				return b
			}
			if b.C == 1 {
				return a
			}
		}
		// constant factors are collected and distributed over "+ constant" (valid modulo 2^w):
		// (x*k1)*k2 => x*(k1*k2), (x + c)*k => x*k + c*k. Unit conversions (ms -> ns in two steps, seconds plus a
		// sub-second part) then meet their inverse divisions in a recognisable y*k + c shape.
		if a.IsConst() && !b.IsConst() {
			a, b = b, a
		}
		if b.IsConst() {
			if a.Op == OpBVMul && a.Args[1].IsConst() {
				return BVBin(OpBVMul, a.Args[0], BV(w, a.Args[1].C*b.C))
			}
			if a.Op == OpBVAdd && a.Args[1].IsConst() {
				return BVBin(OpBVAdd, BVBin(OpBVMul, a.Args[0], b), BV(w, a.Args[1].C*b.C))
			}
		}
	case OpBVAnd:
		if a.IsConst() {
			if a.C == 0 {
				return a
			}
			if a.C == mask(w) {
				return b
			}
		}
		if b.IsConst() {
			if b.C == 0 {
				return b
			}
			if b.C == mask(w) {
				return a
			}
		}
		if a == b {
			return a
		}
	case OpBVOr:
		if a.IsConst() && a.C == 0 {
			return b
		}
		if b.IsConst() && b.C == 0 {
			return a
		}
		if a == b {
			return a
		}
	case OpBVXor:
		if a.IsConst() && a.C == 0 {
			return b
		}
		if b.IsConst() && b.C == 0 {
			return a
		}
		if a == b {
			return BV(w, 0)
		}
	case OpBVShl, OpBVLshr, OpBVAshr:
		if b.IsConst() && b.C == 0 {
			return a
		}
	case OpBVUDiv, OpBVSDiv:
		if b.IsConst() && b.C == 1 {
			return a
		}
	}
	return mk(op, a.Sort, a, b)
}

func BVCmp(op Op, a, b *Term) *Term {
	w := a.Sort.W
	if a.Sort != b.Sort {
		panic(fmt.Sprintf("BVCmp sort mismatch %v %v", a.Sort, b.Sort))
	}
	if a.IsConst() && b.IsConst() {
		switch op {
		case OpBVUlt:
			return BoolT(a.C < b.C)
		case OpBVUle:
			return BoolT(a.C <= b.C)
		case OpBVSlt:
			return BoolT(sx(a.C, w) < sx(b.C, w))
		case OpBVSle:
			return BoolT(sx(a.C, w) <= sx(b.C, w))
		}
	}
	if a == b {
		return BoolT(op == OpBVUle || op == OpBVSle)
	}
	// zext(x) <u const bigger than range
	if op == OpBVUlt && b.IsConst() && a.Op == OpZext {
		iw := a.Args[0].Sort.W
		if iw < 64 && b.C > mask(iw) {
			return TTrue
		}
	}
	return mk(op, SBool, a, b)
}

func BVNot(a *Term) *Term {
	if a.IsConst() {
		return BV(a.Sort.W, ^a.C)
	}
	return mk(OpBVNot, a.Sort, a)
}

func BVNeg(a *Term) *Term {
	if a.IsConst() {
		return BV(a.Sort.W, -a.C)
	}
	return mk(OpBVNeg, a.Sort, a)
}

func Extract(a *Term, hi, lo int) *Term {
	if lo == 0 && hi == a.Sort.W-1 {
		return a
	}
	w := hi - lo + 1
	if a.IsConst() {
		return BV(w, a.C>>uint(lo))
	}
	switch a.Op {
	case OpZext, OpSext:
		iw := a.Args[0].Sort.W
		if hi < iw {
			return Extract(a.Args[0], hi, lo)
		}
		if a.Op == OpZext && lo >= iw {
			return BV(w, 0)
		}
	case OpConcat:
		lw := a.Args[1].Sort.W
		if hi < lw {
			return Extract(a.Args[1], hi, lo)
		}
		if lo >= lw {
			return Extract(a.Args[0], hi-lw, lo-lw)
		}
	case OpExtract:
		return Extract(a.Args[0], hi+a.P2, lo+a.P2)
	}
	t := mk(OpExtract, SBV(w), a)
	t.P1, t.P2 = hi, lo
	return t
}

func Concat(hi, lo *Term) *Term {
	w := hi.Sort.W + lo.Sort.W
	if hi.IsConst() && lo.IsConst() && w <= 64 {
		return BV(w, hi.C<<uint(lo.Sort.W)|lo.C)
	}
	if hi.IsConst() && hi.C == 0 {
		return Zext(lo, w)
	}
	// concat(extract(x,h,m+1), extract(x,m,l)) => extract(x,h,l)
	if hi.Op == OpExtract && lo.Op == OpExtract && hi.Args[0] == lo.Args[0] && hi.P2 == lo.P1+1 {
		return Extract(hi.Args[0], hi.P1, lo.P2)
	}
	return mk(OpConcat, SBV(w), hi, lo)
}

func Zext(a *Term, w int) *Term {
	if a.Sort.W == w {
		return a
	}
	if a.Sort.W > w {
		return Extract(a, w-1, 0)
	}
	if a.IsConst() {
		return BV(w, a.C)
	}
	if a.Op == OpZext {
		return Zext(a.Args[0], w)
	}
	t := mk(OpZext, SBV(w), a)
	t.P1 = w - a.Sort.W
	return t
}

func Sext(a *Term, w int) *Term {
	if a.Sort.W == w {
		return a
	}
	if a.Sort.W > w {
		return Extract(a, w-1, 0)
	}
	if a.IsConst() {
		return BV(w, uint64(sx(a.C, a.Sort.W)))
	}
	if a.Op == OpZext {
		return Zext(a.Args[0], w)
	}
	t := mk(OpSext, SBV(w), a)
	t.P1 = w - a.Sort.W
	return t
}

func UF(name string, s Sort, args ...*Term) *Term {
	t := mk(OpUF, s, args...)
	t.Name = name
	return t
}

// ---- floating point ----

func FBin(op Op, a, b *Term) *Term {
	if a.IsConst() && b.IsConst() {
		x, y := a.Float(), b.Float()
		var r float64
		switch op {
		case OpFAdd:
			r = x + y
		case OpFSub:
			r = x - y
		case OpFMul:
			r = x * y
		case OpFDiv:
			r = x / y
		}
		if a.Sort.W == 32 {
			switch op {
			case OpFAdd:
				r = float64(float32(x) + float32(y))
			case OpFSub:
				r = float64(float32(x) - float32(y))
			case OpFMul:
				r = float64(float32(x) * float32(y))
			case OpFDiv:
				r = float64(float32(x) / float32(y))
			}
		}
		return FPConst(a.Sort.W, r)
	}
	return mk(op, a.Sort, a, b)
}

func FCmp(op Op, a, b *Term) *Term {
	if a.IsConst() && b.IsConst() {
		x, y := a.Float(), b.Float()
		switch op {
		case OpFLt:
			return BoolT(x < y)
		case OpFLe:
			return BoolT(x <= y)
		case OpFEq:
			return BoolT(x == y)
		}
	}
	return mk(op, SBool, a, b)
}

func FNeg(a *Term) *Term {
	if a.IsConst() {
		return FPConst(a.Sort.W, -a.Float())
	}
	return mk(OpFNeg, a.Sort, a)
}

func FIsNaN(a *Term) *Term {
	if a.IsConst() {
		return BoolT(math.IsNaN(a.Float()))
	}
	return mk(OpFIsNaN, SBool, a)
}

// ---- printing ----

func bvLit(w int, v uint64) string {
	if w%4 == 0 {
		return fmt.Sprintf("#x%0*x", w/4, v&mask(w))
	}
	return fmt.Sprintf("#b%0*b", w, v&mask(w))
}

func fpLit(w int, bitsv uint64) string {
	if w == 32 {
		s := (bitsv >> 31) & 1
		e := (bitsv >> 23) & 0xff
		m := bitsv & 0x7fffff
		return fmt.Sprintf("(fp #b%b #b%08b #b%023b)", s, e, m)
	}
	s := (bitsv >> 63) & 1
	e := (bitsv >> 52) & 0x7ff
	m := bitsv & ((1 << 52) - 1)
	return fmt.Sprintf("(fp #b%b #b%011b #b%052b)", s, e, m)
}

var opNames = map[Op]string{
	OpNot: "not", OpAnd: "and", OpOr: "or", OpEq: "=", OpIte: "ite",
	OpBVAdd: "bvadd", OpBVSub: "bvsub", OpBVMul: "bvmul", OpBVUDiv: "bvudiv", OpBVSDiv: "bvsdiv",
	OpBVURem: "bvurem", OpBVSRem: "bvsrem", OpBVAnd: "bvand", OpBVOr: "bvor", OpBVXor: "bvxor",
	OpBVNot: "bvnot", OpBVNeg: "bvneg", OpBVShl: "bvshl", OpBVLshr: "bvlshr", OpBVAshr: "bvashr",
	OpBVUlt: "bvult", OpBVUle: "bvule", OpBVSlt: "bvslt", OpBVSle: "bvsle", OpConcat: "concat",
	OpFAdd: "fp.add RNE", OpFSub: "fp.sub RNE", OpFMul: "fp.mul RNE", OpFDiv: "fp.div RNE", OpFNeg: "fp.neg",
	OpFLt: "fp.lt", OpFLe: "fp.leq", OpFEq: "fp.eq", OpFIsNaN: "fp.isNaN",
}

// Emitter turns terms into SMT-LIB text with shared sub-terms defined once.
type Emitter struct {
	next    int
	defs    strings.Builder // pending definitions not yet flushed to the solver
	decl    map[string]Sort
	ufs     map[string]string
	defined map[*Term]string
}

func NewEmitter() *Emitter {
	return &Emitter{decl: map[string]Sort{}, ufs: map[string]string{}, defined: map[*Term]string{}}
}

// Ref returns the SMT-LIB reference for t, appending needed definitions to e.defs.
func (e *Emitter) Ref(t *Term) string {
	switch t.Op {
	case OpConst:
		switch t.Sort.K {
		case KBool:
			if t.C == 1 {
				return "true"
			}
			return "false"
		case KBV:
			return bvLit(t.Sort.W, t.C)
		case KFP:
			return fpLit(t.Sort.W, t.C)
		}
	case OpVar:
		if _, ok := e.decl[t.Name]; !ok {
			e.decl[t.Name] = t.Sort
			fmt.Fprintf(&e.defs, "(declare-const %s %s)\n", smtName(t.Name), t.Sort)
		}
		return smtName(t.Name)
	}
	if n, ok := e.defined[t]; ok {
		return n
	}
	var sb strings.Builder
	switch t.Op {
	case OpExtract:
		fmt.Fprintf(&sb, "((_ extract %d %d) %s)", t.P1, t.P2, e.Ref(t.Args[0]))
	case OpZext:
		fmt.Fprintf(&sb, "((_ zero_extend %d) %s)", t.P1, e.Ref(t.Args[0]))
	case OpSext:
		fmt.Fprintf(&sb, "((_ sign_extend %d) %s)", t.P1, e.Ref(t.Args[0]))
	case OpUF:
		key := t.Name
		if _, ok := e.ufs[key]; !ok {
			var as []string
			for _, a := range t.Args {
				as = append(as, a.Sort.String())
			}
			e.ufs[key] = "x"
			fmt.Fprintf(&e.defs, "(declare-fun %s (%s) %s)\n", smtName(key), strings.Join(as, " "), t.Sort)
		}
		sb.WriteString("(" + smtName(key))
		for _, a := range t.Args {
			sb.WriteString(" " + e.Ref(a))
		}
		sb.WriteString(")")
	case OpSIToFP, OpUIToFP:
		eb, sbits := 11, 53
		if t.Sort.W == 32 {
			eb, sbits = 8, 24
		}
		if t.Op == OpSIToFP {
			fmt.Fprintf(&sb, "((_ to_fp %d %d) RNE %s)", eb, sbits, e.Ref(t.Args[0]))
		} else {
			fmt.Fprintf(&sb, "((_ to_fp_unsigned %d %d) RNE %s)", eb, sbits, e.Ref(t.Args[0]))
		}
	case OpFPToFP:
		eb, sbits := 11, 53
		if t.Sort.W == 32 {
			eb, sbits = 8, 24
		}
		fmt.Fprintf(&sb, "((_ to_fp %d %d) RNE %s)", eb, sbits, e.Ref(t.Args[0]))
	case OpFPToSI:
		fmt.Fprintf(&sb, "((_ fp.to_sbv %d) RTZ %s)", t.Sort.W, e.Ref(t.Args[0]))
	case OpFPToUI:
		fmt.Fprintf(&sb, "((_ fp.to_ubv %d) RTZ %s)", t.Sort.W, e.Ref(t.Args[0]))
	default:
		name, ok := opNames[t.Op]
		if !ok {
			panic(fmt.Sprintf("emit: op %d", t.Op))
		}
		sb.WriteString("(" + name)
		for _, a := range t.Args {
			sb.WriteString(" " + e.Ref(a))
		}
		sb.WriteString(")")
	}
	// small terms inline, bigger ones named
	if t.size <= 3 {
		s := sb.String()
		e.defined[t] = s
		return s
	}
	e.next++
	n := fmt.Sprintf("t!%d", e.next)
	fmt.Fprintf(&e.defs, "(define-fun %s () %s %s)\n", n, t.Sort, sb.String())
	e.defined[t] = n
	return n
}

func (e *Emitter) Flush() string {
	s := e.defs.String()
	e.defs.Reset()
	return s
}

func smtName(n string) string { return "|" + n + "|" }

// EvalTerm evaluates t under a model of variable values (BV/bool as uint64; FP as IEEE bits).
// UFs are looked up in ufModel by rendered application; missing -> ok=false.
func EvalTerm(t *Term, model map[string]uint64) (uint64, bool) {
	switch t.Op {
	case OpConst:
		return t.C, true
	case OpVar:
		v, ok := model[t.Name]
		return v, ok
	}
	args := make([]uint64, len(t.Args))
	for i, a := range t.Args {
		v, ok := EvalTerm(a, model)
		if !ok {
			return 0, false
		}
		args[i] = v
	}
	cs := make([]*Term, len(args))
	for i, a := range t.Args {
		cs[i] = &Term{Op: OpConst, Sort: a.Sort, C: args[i]}
	}
	var r *Term
	switch t.Op {
	case OpNot:
		r = Not(cs[0])
	case OpAnd:
		r = And(cs[0], cs[1])
	case OpOr:
		r = Or(cs[0], cs[1])
	case OpEq:
		r = Eq(cs[0], cs[1])
	case OpIte:
		r = Ite(cs[0], cs[1], cs[2])
	case OpBVAdd, OpBVSub, OpBVMul, OpBVUDiv, OpBVSDiv, OpBVURem, OpBVSRem, OpBVAnd, OpBVOr, OpBVXor, OpBVShl, OpBVLshr, OpBVAshr:
		r = BVBin(t.Op, cs[0], cs[1])
	case OpBVUlt, OpBVUle, OpBVSlt, OpBVSle:
		r = BVCmp(t.Op, cs[0], cs[1])
	case OpBVNot:
		r = BVNot(cs[0])
	case OpBVNeg:
		r = BVNeg(cs[0])
	case OpExtract:
		r = Extract(cs[0], t.P1, t.P2)
	case OpConcat:
		r = Concat(cs[0], cs[1])
	case OpZext:
		r = Zext(cs[0], t.Sort.W)
	case OpSext:
		r = Sext(cs[0], t.Sort.W)
	default:
		return 0, false
	}
	if !r.IsConst() {
		return 0, false
	}
	return r.C, true
}

var _ = bits.Len

// evalMemo is EvalTerm with memoisation over the DAG.
func evalMemo(t *Term, model map[string]uint64, memo map[*Term]evalRes) (uint64, bool) {
	switch t.Op {
	case OpConst:
		return t.C, true
	case OpVar:
		v, ok := model[t.Name]
		return v, ok
	}
	if r, ok := memo[t]; ok {
		return r.v, r.ok
	}
	cs := make([]*Term, len(t.Args))
	for i, a := range t.Args {
		// short-circuit ite to avoid evaluating both branches
		if t.Op == OpIte && i > 0 {
			continue
		}
		v, ok := evalMemo(a, model, memo)
		if !ok {
			memo[t] = evalRes{0, false}
			return 0, false
		}
		cs[i] = &Term{Op: OpConst, Sort: a.Sort, C: v}
	}
	var r *Term
	switch t.Op {
	case OpIte:
		br := t.Args[2]
		if cs[0].C == 1 {
			br = t.Args[1]
		}
		v, ok := evalMemo(br, model, memo)
		memo[t] = evalRes{v, ok}
		return v, ok
	case OpNot:
		r = Not(cs[0])
	case OpAnd:
		r = And(cs[0], cs[1])
	case OpOr:
		r = Or(cs[0], cs[1])
	case OpEq:
		r = Eq(cs[0], cs[1])
	case OpBVAdd, OpBVSub, OpBVMul, OpBVUDiv, OpBVSDiv, OpBVURem, OpBVSRem, OpBVAnd, OpBVOr, OpBVXor, OpBVShl, OpBVLshr, OpBVAshr:
		r = BVBin(t.Op, cs[0], cs[1])
	case OpBVUlt, OpBVUle, OpBVSlt, OpBVSle:
		r = BVCmp(t.Op, cs[0], cs[1])
	case OpBVNot:
		r = BVNot(cs[0])
	case OpBVNeg:
		r = BVNeg(cs[0])
	case OpExtract:
		r = Extract(cs[0], t.P1, t.P2)
	case OpConcat:
		r = Concat(cs[0], cs[1])
	case OpZext:
		r = Zext(cs[0], t.Sort.W)
	case OpSext:
		r = Sext(cs[0], t.Sort.W)
	case OpFAdd, OpFSub, OpFMul, OpFDiv:
		r = FBin(t.Op, cs[0], cs[1])
	case OpFLt, OpFLe, OpFEq:
		r = FCmp(t.Op, cs[0], cs[1])
	case OpFNeg:
		r = FNeg(cs[0])
	case OpFIsNaN:
		r = FIsNaN(cs[0])
	default:
		memo[t] = evalRes{0, false}
		return 0, false
	}
	if r == nil || !r.IsConst() {
		memo[t] = evalRes{0, false}
		return 0, false
	}
	memo[t] = evalRes{r.C, true}
	return r.C, true
}
