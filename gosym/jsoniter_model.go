package main

// Model of github.com/json-iterator/go's Stream (third-party, reflection based): a byte buffer with the
// documented writer methods. String escaping is the model's own (", \, control bytes as \u00XX): "strings
// containing any bytes are correctly escaped" is therefore only claimed for qryn's hand-built fragments.

import (
	"fmt"
	"go/types"

	"golang.org/x/tools/go/ssa"
)

type symStream struct {
	buf []*Term
}

func streamOf(m *Machine, v Value) *symStream {
	n, ok := v.(*Native)
	if !ok || n == nil {
		m.rtPanic("invalid memory address or nil pointer dereference (nil *jsoniter.Stream)")
	}
	return n.V.(*symStream)
}

func (s *symStream) writeConst(str string) {
	for i := 0; i < len(str); i++ {
		s.buf = append(s.buf, BV(8, uint64(str[i])))
	}
}

func (m *Machine) jsonQuoteModel(s *symStream, str Str) {
	s.buf = append(s.buf, BV(8, '"'))
	const hex = "0123456789abcdef"
	for _, b := range str.Bytes() {
		if b.IsConst() {
			c := byte(b.C)
			switch {
			case c == '"' || c == '\\':
				s.buf = append(s.buf, BV(8, '\\'), b)
			case c == '\n':
				s.writeConst("\\n")
			case c == '\r':
				s.writeConst("\\r")
			case c == '\t':
				s.writeConst("\\t")
			case c < 0x20:
				s.writeConst(fmt.Sprintf("\\u00%c%c", hex[c>>4], hex[c&0xf]))
			default:
				s.buf = append(s.buf, b)
			}
			continue
		}
		isQ := Or(Eq(b, BV(8, '"')), Eq(b, BV(8, '\\')))
		if m.decide(isQ) {
			s.buf = append(s.buf, BV(8, '\\'), b)
			continue
		}
		if m.decide(BVCmp(OpBVUlt, b, BV(8, 0x20))) {
			s.writeConst("\\u00")
			s.buf = append(s.buf, hexDigit(Extract(b, 7, 4)), hexDigit(Extract(b, 3, 0)))
			continue
		}
		s.buf = append(s.buf, b)
	}
	s.buf = append(s.buf, BV(8, '"'))
}

func init() {
	const jp = "github.com/json-iterator/go"
	newStream := func(m *Machine, fr *frame, a []Value) Value {
		m.stubs["model:jsoniter.Stream (byte buffer, own string escaping)"]++
		return &Native{V: &symStream{}}
	}
	reg("(*"+jp+".frozenConfig).BorrowStream", newStream)
	reg("("+jp+".API).BorrowStream", newStream)
	reg(jp+".NewStream", newStream)
	reg("(*"+jp+".frozenConfig).ReturnStream", func(m *Machine, fr *frame, a []Value) Value { return nil })
	w := func(name string, f func(m *Machine, s *symStream, a []Value)) {
		reg("(*"+jp+".Stream)."+name, func(m *Machine, fr *frame, a []Value) Value {
			f(m, streamOf(m, a[0]), a)
			return nil
		})
	}
	w("WriteObjectStart", func(m *Machine, s *symStream, a []Value) { s.writeConst("{") })
	w("WriteObjectEnd", func(m *Machine, s *symStream, a []Value) { s.writeConst("}") })
	w("WriteEmptyObject", func(m *Machine, s *symStream, a []Value) { s.writeConst("{}") })
	w("WriteArrayStart", func(m *Machine, s *symStream, a []Value) { s.writeConst("[") })
	w("WriteArrayEnd", func(m *Machine, s *symStream, a []Value) { s.writeConst("]") })
	w("WriteEmptyArray", func(m *Machine, s *symStream, a []Value) { s.writeConst("[]") })
	w("WriteMore", func(m *Machine, s *symStream, a []Value) { s.writeConst(",") })
	w("WriteNil", func(m *Machine, s *symStream, a []Value) { s.writeConst("null") })
	w("WriteTrue", func(m *Machine, s *symStream, a []Value) { s.writeConst("true") })
	w("WriteFalse", func(m *Machine, s *symStream, a []Value) { s.writeConst("false") })
	w("WriteBool", func(m *Machine, s *symStream, a []Value) {
		if m.decide(a[1].(*Term)) {
			s.writeConst("true")
		} else {
			s.writeConst("false")
		}
	})
	w("WriteObjectField", func(m *Machine, s *symStream, a []Value) {
		m.jsonQuoteModel(s, a[1].(Str))
		s.writeConst(":")
	})
	w("WriteString", func(m *Machine, s *symStream, a []Value) { m.jsonQuoteModel(s, a[1].(Str)) })
	w("WriteRaw", func(m *Machine, s *symStream, a []Value) { s.buf = append(s.buf, a[1].(Str).Bytes()...) })
	w("WriteInt64", func(m *Machine, s *symStream, a []Value) {
		t := a[1].(*Term)
		if t.IsConst() {
			s.writeConst(fmt.Sprint(t.S()))
		} else {
			s.buf = append(s.buf, m.symItoa(t, true).Bytes()...)
		}
	})
	w("WriteInt", func(m *Machine, s *symStream, a []Value) {
		t := a[1].(*Term)
		if t.IsConst() {
			s.writeConst(fmt.Sprint(t.S()))
		} else {
			s.buf = append(s.buf, m.symItoa(t, true).Bytes()...)
		}
	})
	w("WriteUint64", func(m *Machine, s *symStream, a []Value) {
		t := a[1].(*Term)
		if t.IsConst() {
			s.writeConst(fmt.Sprint(t.C))
		} else {
			s.buf = append(s.buf, m.symItoa(t, false).Bytes()...)
		}
	})
	w("WriteFloat64", func(m *Machine, s *symStream, a []Value) {
		t := a[1].(*Term)
		if !t.IsConst() {
			m.unsupported("jsoniter WriteFloat64 of a symbolic float")
		}
		s.writeConst(fmt.Sprint(t.Float()))
	})
	w("Reset", func(m *Machine, s *symStream, a []Value) { s.buf = nil })
	w("Flush", func(m *Machine, s *symStream, a []Value) {})
	reg("(*"+jp+".Stream).Buffer", func(m *Machine, fr *frame, a []Value) Value {
		s := streamOf(m, a[0])
		out := make([]Value, len(s.buf))
		for i, b := range s.buf {
			out[i] = b
		}
		return out
	})
	reg("(*"+jp+".Stream).Buffered", func(m *Machine, fr *frame, a []Value) Value {
		return BV(64, uint64(len(streamOf(m, a[0]).buf)))
	})
}

func init() {
	const jp = "github.com/json-iterator/go"
	// Config.Froze builds the API object with reflection; the model returns an empty frozenConfig whose
	// stream methods are modelled above.
	reg("("+jp+".Config).Froze", func(m *Machine, fr *frame, a []Value) Value {
		pkg := m.P.pkgs[jp]
		t := pkg.Type("frozenConfig").Object().Type()
		var cell Value = zero(t)
		return Iface{T: types.NewPointer(t), V: &cell}
	})
}

func init() {
	const jp = "github.com/json-iterator/go"
	pkgInitOverrides[jp] = func(m *Machine, pkg *ssa.Package) {
		t := pkg.Type("frozenConfig").Object().Type()
		for _, name := range []string{"ConfigDefault", "ConfigCompatibleWithStandardLibrary", "ConfigFastest"} {
			g := pkg.Var(name)
			if g == nil {
				continue
			}
			var cell Value = zero(t)
			*m.globals[g] = Iface{T: types.NewPointer(t), V: &cell}
		}
	}
}
