package main

import "fmt"

type sqlRows struct {
	cols []string
	rows [][]Value
	pos  int
	errAt int
	closed bool
	failed bool
}

func replayTZ(rv *ReplayVector) string {
	for _, in := range rv.Inputs {
		if in.Label == "TZ-offset-hours" {
			h := int64(in.Value)
			if h == 0 {
				return "UTC"
			}
			if h > 0 {
				return fmt.Sprintf("Etc/GMT-%d", h) // POSIX sign convention
			}
			return fmt.Sprintf("Etc/GMT+%d", -h)
		}
	}
	return ""
}


func init() {
	reg(vrtPath+".Thorough", func(m *Machine, fr *frame, args []Value) Value { return BoolT(m.opts["thorough"] == 1) })
}
