package main

type sqlRows struct {
	cols []string
	rows [][]Value
	pos  int
	errAt int
	closed bool
}

func replayTZ(rv *ReplayVector) string {
	for _, in := range rv.Inputs {
		if in.Label == "TZ-offset-quarter-hours" {
			return tzNameForQuarterHours(int64(in.Value))
		}
	}
	return ""
}

func tzNameForQuarterHours(q int64) string { return "" }

func init() {
	reg(vrtPath+".Thorough", func(m *Machine, fr *frame, args []Value) Value { return BoolT(m.opts["thorough"] == 1) })
}
