package main

// Models of body-less or environment functions of the standard library.

import (
	"fmt"
	"go/token"
	"go/types"
	"math"
	"strconv"
	"strings"
	"unsafe"
)

type mutexState struct {
	locked  bool
	readers int
}

type wgState struct{ n int64 }

func (m *Machine) sideMutex(p *Value) *mutexState {
	if s, ok := m.side[p]; ok {
		return s.(*mutexState)
	}
	s := &mutexState{}
	m.side[p] = s
	return s
}

func init() {
	// ---- sync ----
	reg("(*sync.Mutex).Lock", func(m *Machine, fr *frame, a []Value) Value {
		s := m.sideMutex(a[0].(*Value))
		if s.locked {
			m.block("Mutex.Lock", func() bool { return !s.locked })
		}
		s.locked = true
		return nil
	})
	reg("(*sync.Mutex).TryLock", func(m *Machine, fr *frame, a []Value) Value {
		s := m.sideMutex(a[0].(*Value))
		if s.locked {
			return TFalse
		}
		s.locked = true
		return TTrue
	})
	reg("(*sync.Mutex).Unlock", func(m *Machine, fr *frame, a []Value) Value {
		s := m.sideMutex(a[0].(*Value))
		if !s.locked {
			panic(targetPanic{Iface{T: m.P.rtErr, V: CStr("sync: unlock of unlocked mutex")}})
		}
		s.locked = false
		return nil
	})
	reg("(*sync.RWMutex).Lock", func(m *Machine, fr *frame, a []Value) Value {
		s := m.sideMutex(a[0].(*Value))
		if s.locked || s.readers > 0 {
			m.block("RWMutex.Lock", func() bool { return !s.locked && s.readers == 0 })
		}
		s.locked = true
		return nil
	})
	reg("(*sync.RWMutex).Unlock", func(m *Machine, fr *frame, a []Value) Value {
		s := m.sideMutex(a[0].(*Value))
		if !s.locked {
			panic(targetPanic{Iface{T: m.P.rtErr, V: CStr("sync: Unlock of unlocked RWMutex")}})
		}
		s.locked = false
		return nil
	})
	reg("(*sync.RWMutex).RLock", func(m *Machine, fr *frame, a []Value) Value {
		s := m.sideMutex(a[0].(*Value))
		if s.locked {
			m.block("RWMutex.RLock", func() bool { return !s.locked })
		}
		s.readers++
		return nil
	})
	reg("(*sync.RWMutex).RUnlock", func(m *Machine, fr *frame, a []Value) Value {
		s := m.sideMutex(a[0].(*Value))
		if s.readers <= 0 {
			panic(targetPanic{Iface{T: m.P.rtErr, V: CStr("sync: RUnlock of unlocked RWMutex")}})
		}
		s.readers--
		return nil
	})
	wg := func(m *Machine, p *Value) *wgState {
		if s, ok := m.side[p]; ok {
			return s.(*wgState)
		}
		s := &wgState{}
		m.side[p] = s
		return s
	}
	reg("(*sync.WaitGroup).Add", func(m *Machine, fr *frame, a []Value) Value {
		s := wg(m, a[0].(*Value))
		s.n += m.concInt(a[1])
		if s.n < 0 {
			panic(targetPanic{Iface{T: m.P.rtErr, V: CStr("sync: negative WaitGroup counter")}})
		}
		return nil
	})
	reg("(*sync.WaitGroup).Done", func(m *Machine, fr *frame, a []Value) Value {
		s := wg(m, a[0].(*Value))
		s.n--
		if s.n < 0 {
			panic(targetPanic{Iface{T: m.P.rtErr, V: CStr("sync: negative WaitGroup counter")}})
		}
		return nil
	})
	reg("(*sync.WaitGroup).Wait", func(m *Machine, fr *frame, a []Value) Value {
		s := wg(m, a[0].(*Value))
		if s.n > 0 {
			m.block("WaitGroup.Wait", func() bool { return s.n == 0 })
		}
		return nil
	})
	reg("(*sync.Pool).Get", func(m *Machine, fr *frame, a []Value) Value {
		p := a[0].(*Value)
		st := (*p).(Struct)
		// last field is New func() any
		nf := st[len(st)-1]
		if isNilFunc(nf) {
			return Iface{}
		}
		return m.call(fr, token.NoPos, nf, nil)
	})
	reg("(*sync.Pool).Put", func(m *Machine, fr *frame, a []Value) Value { return nil })
	reg("(*sync.Once).Do", func(m *Machine, fr *frame, a []Value) Value {
		p := a[0].(*Value)
		if _, ok := m.side[p]; ok {
			return nil
		}
		m.side[p] = true
		m.call(fr, token.NoPos, a[1], nil)
		return nil
	})

	// ---- sync/atomic ----
	for _, ty := range []string{"Int32", "Int64", "Uint32", "Uint64", "Uintptr"} {
		reg("sync/atomic.Load"+ty, func(m *Machine, fr *frame, a []Value) Value { return *(a[0].(*Value)) })
		reg("sync/atomic.Store"+ty, func(m *Machine, fr *frame, a []Value) Value { *(a[0].(*Value)) = a[1]; return nil })
		reg("sync/atomic.Add"+ty, func(m *Machine, fr *frame, a []Value) Value {
			p := a[0].(*Value)
			n := BVBin(OpBVAdd, (*p).(*Term), a[1].(*Term))
			*p = n
			return n
		})
		reg("sync/atomic.Swap"+ty, func(m *Machine, fr *frame, a []Value) Value {
			p := a[0].(*Value)
			old := *p
			*p = a[1]
			return old
		})
		reg("sync/atomic.CompareAndSwap"+ty, func(m *Machine, fr *frame, a []Value) Value {
			p := a[0].(*Value)
			if m.decide(Eq((*p).(*Term), a[1].(*Term))) {
				*p = a[2]
				return TTrue
			}
			return TFalse
		})
		reg("sync/atomic.And"+ty, func(m *Machine, fr *frame, a []Value) Value {
			p := a[0].(*Value)
			old := (*p).(*Term)
			*p = BVBin(OpBVAnd, old, a[1].(*Term))
			return old
		})
		reg("sync/atomic.Or"+ty, func(m *Machine, fr *frame, a []Value) Value {
			p := a[0].(*Value)
			old := (*p).(*Term)
			*p = BVBin(OpBVOr, old, a[1].(*Term))
			return old
		})
	}
	reg("sync/atomic.LoadPointer", func(m *Machine, fr *frame, a []Value) Value { return *(a[0].(*Value)) })
	reg("sync/atomic.StorePointer", func(m *Machine, fr *frame, a []Value) Value { *(a[0].(*Value)) = a[1]; return nil })
	reg("sync/atomic.SwapPointer", func(m *Machine, fr *frame, a []Value) Value {
		p := a[0].(*Value)
		old := *p
		*p = a[1]
		return old
	})
	reg("sync/atomic.CompareAndSwapPointer", func(m *Machine, fr *frame, a []Value) Value {
		p := a[0].(*Value)
		if (*p).(UPtr).P == a[1].(UPtr).P {
			*p = a[2]
			return TTrue
		}
		return TFalse
	})
	reg("(*sync/atomic.Value).Load", func(m *Machine, fr *frame, a []Value) Value {
		p := a[0].(*Value)
		return (*p).(Struct)[0]
	})
	reg("(*sync/atomic.Value).Store", func(m *Machine, fr *frame, a []Value) Value {
		p := a[0].(*Value)
		(*p).(Struct)[0] = a[1]
		return nil
	})
	reg("(*sync/atomic.Value).Swap", func(m *Machine, fr *frame, a []Value) Value {
		p := a[0].(*Value)
		old := (*p).(Struct)[0]
		(*p).(Struct)[0] = a[1]
		return old
	})

	// ---- runtime & friends ----
	reg("runtime.Gosched", func(m *Machine, fr *frame, a []Value) Value { m.yield(); return nil })
	reg("runtime.GC", func(m *Machine, fr *frame, a []Value) Value { return nil })
	reg("runtime.KeepAlive", func(m *Machine, fr *frame, a []Value) Value { return nil })
	reg("runtime.SetFinalizer", func(m *Machine, fr *frame, a []Value) Value { return nil })
	reg("runtime.NumGoroutine", func(m *Machine, fr *frame, a []Value) Value { return BV(64, 1) })
	reg("runtime.GOMAXPROCS", func(m *Machine, fr *frame, a []Value) Value { return BV(64, 1) })
	reg("runtime.NumCPU", func(m *Machine, fr *frame, a []Value) Value { return BV(64, 1) })
	// stack introspection (error wrappers record their caller): no frames are reported
	reg("runtime.Callers", func(m *Machine, fr *frame, a []Value) Value { return BV(64, 0) })
	reg("runtime.Caller", func(m *Machine, fr *frame, a []Value) Value {
		return Tuple{BV(64, 0), Str{}, BV(64, 0), TFalse}
	})
	reg("internal/abi.NoEscape", func(m *Machine, fr *frame, a []Value) Value { return a[0] })
	reg("internal/abi.Escape", func(m *Machine, fr *frame, a []Value) Value { return a[0] })
	reg("internal/race.Enabled", func(m *Machine, fr *frame, a []Value) Value { return TFalse })
	reg("os.Getenv", func(m *Machine, fr *frame, a []Value) Value { return Str{} })
	reg("os.LookupEnv", func(m *Machine, fr *frame, a []Value) Value { return Tuple{Str{}, TFalse} })
	reg("os.Exit", func(m *Machine, fr *frame, a []Value) Value {
		m.end(OutCrash, "os.Exit called")
		return nil
	})
	reg("os.Hostname", func(m *Machine, fr *frame, a []Value) Value { return Tuple{CStr("host"), Iface{}} })
	reg("fmt.Println", func(m *Machine, fr *frame, a []Value) Value { return Tuple{BV(64, 0), Iface{}} })
	reg("fmt.Printf", func(m *Machine, fr *frame, a []Value) Value { return Tuple{BV(64, 0), Iface{}} })
	reg("fmt.Print", func(m *Machine, fr *frame, a []Value) Value { return Tuple{BV(64, 0), Iface{}} })

	// ---- math ----
	reg("math.Float64bits", func(m *Machine, fr *frame, a []Value) Value {
		t := a[0].(*Term)
		if !t.IsConst() {
			m.unsupported("math.Float64bits of symbolic float")
		}
		return BV(64, t.C)
	})
	reg("math.Float64frombits", func(m *Machine, fr *frame, a []Value) Value {
		t := a[0].(*Term)
		if !t.IsConst() {
			m.unsupported("math.Float64frombits of symbolic bits")
		}
		return &Term{Op: OpConst, Sort: SFP(64), C: t.C}
	})
	reg("math.Float32bits", func(m *Machine, fr *frame, a []Value) Value {
		t := a[0].(*Term)
		if !t.IsConst() {
			m.unsupported("math.Float32bits of symbolic float")
		}
		return BV(32, t.C)
	})
	reg("math.Float32frombits", func(m *Machine, fr *frame, a []Value) Value {
		t := a[0].(*Term)
		if !t.IsConst() {
			m.unsupported("math.Float32frombits of symbolic bits")
		}
		return &Term{Op: OpConst, Sort: SFP(32), C: t.C}
	})
	f1 := func(name string, f func(float64) float64) {
		reg("math."+name, func(m *Machine, fr *frame, a []Value) Value {
			t := a[0].(*Term)
			if !t.IsConst() {
				m.unsupported("math.%s of symbolic float", name)
			}
			return FPConst(64, f(t.Float()))
		})
	}
	f1("Floor", math.Floor)
	f1("Ceil", math.Ceil)
	f1("Trunc", math.Trunc)
	f1("Sqrt", math.Sqrt)
	f1("Abs", math.Abs)
	f1("Log", math.Log)
	f1("Log2", math.Log2)
	f1("Log10", math.Log10)
	f1("Exp", math.Exp)
	f1("Round", math.Round)
	reg("math.IsNaN", func(m *Machine, fr *frame, a []Value) Value { return FIsNaN(a[0].(*Term)) })
	reg("math.IsInf", func(m *Machine, fr *frame, a []Value) Value {
		t := a[0].(*Term)
		if !t.IsConst() {
			m.unsupported("math.IsInf of symbolic float")
		}
		return BoolT(math.IsInf(t.Float(), int(m.concInt(a[1]))))
	})
	reg("math.Inf", func(m *Machine, fr *frame, a []Value) Value { return FPConst(64, math.Inf(int(m.concInt(a[0])))) })
	reg("math.NaN", func(m *Machine, fr *frame, a []Value) Value { return FPConst(64, math.NaN()) })
	reg("math.Pow", func(m *Machine, fr *frame, a []Value) Value {
		x, y := a[0].(*Term), a[1].(*Term)
		if !x.IsConst() || !y.IsConst() {
			m.unsupported("math.Pow symbolic")
		}
		return FPConst(64, math.Pow(x.Float(), y.Float()))
	})
	reg("math.Mod", func(m *Machine, fr *frame, a []Value) Value {
		x, y := a[0].(*Term), a[1].(*Term)
		if !x.IsConst() || !y.IsConst() {
			m.unsupported("math.Mod symbolic")
		}
		return FPConst(64, math.Mod(x.Float(), y.Float()))
	})

	// ---- internal/bytealg ----
	reg("internal/bytealg.IndexByteString", func(m *Machine, fr *frame, a []Value) Value {
		return indexByte(a[0].(Str).Bytes(), a[1].(*Term))
	})
	reg("internal/bytealg.IndexByte", func(m *Machine, fr *frame, a []Value) Value {
		return indexByte(termsOf(a[0].([]Value)), a[1].(*Term))
	})
	reg("internal/bytealg.LastIndexByteString", func(m *Machine, fr *frame, a []Value) Value {
		return lastIndexByte(a[0].(Str).Bytes(), a[1].(*Term))
	})
	reg("internal/bytealg.LastIndexByte", func(m *Machine, fr *frame, a []Value) Value {
		return lastIndexByte(termsOf(a[0].([]Value)), a[1].(*Term))
	})
	reg("internal/bytealg.CountString", func(m *Machine, fr *frame, a []Value) Value {
		return countByte(a[0].(Str).Bytes(), a[1].(*Term))
	})
	reg("internal/bytealg.Count", func(m *Machine, fr *frame, a []Value) Value {
		return countByte(termsOf(a[0].([]Value)), a[1].(*Term))
	})
	reg("internal/bytealg.Equal", func(m *Machine, fr *frame, a []Value) Value {
		return StrEq(strOfSlice(a[0].([]Value)), strOfSlice(a[1].([]Value)))
	})
	reg("internal/bytealg.Compare", func(m *Machine, fr *frame, a []Value) Value {
		x, y := strOfSlice(a[0].([]Value)), strOfSlice(a[1].([]Value))
		return Ite(StrEq(x, y), BV(64, 0), Ite(StrLess(x, y), BV(64, ^uint64(0)), BV(64, 1)))
	})
	reg("internal/bytealg.IndexString", func(m *Machine, fr *frame, a []Value) Value {
		return m.indexString(a[0].(Str), a[1].(Str))
	})
	reg("internal/bytealg.Index", func(m *Machine, fr *frame, a []Value) Value {
		return m.indexString(strOfSlice(a[0].([]Value)), strOfSlice(a[1].([]Value)))
	})
	reg("internal/bytealg.MakeNoZero", func(m *Machine, fr *frame, a []Value) Value {
		n := m.concInt(a[0])
		s := make([]Value, n)
		for i := range s {
			s[i] = BV(8, 0)
		}
		return s
	})
	reg("internal/bytealg.Cutover", func(m *Machine, fr *frame, a []Value) Value { return BV(64, 1<<30) })
	reg("internal/stringslite.Index", func(m *Machine, fr *frame, a []Value) Value {
		return m.indexString(a[0].(Str), a[1].(Str))
	})
	reg("strings.Index", func(m *Machine, fr *frame, a []Value) Value {
		return m.indexString(a[0].(Str), a[1].(Str))
	})
	reg("bytes.Index", func(m *Machine, fr *frame, a []Value) Value {
		return m.indexString(strOfSlice(a[0].([]Value)), strOfSlice(a[1].([]Value)))
	})
	reg("strings.Clone", func(m *Machine, fr *frame, a []Value) Value { return a[0] })
	reg("internal/stringslite.Clone", func(m *Machine, fr *frame, a []Value) Value { return a[0] })

	// ---- errors ----
	reg("errors.Is", func(m *Machine, fr *frame, a []Value) Value {
		e, target := a[0].(Iface), a[1].(Iface)
		for depth := 0; depth < 16 && e.T != nil; depth++ {
			if target.T != nil && types.Identical(e.T, target.T) && types.Comparable(e.T) {
				if m.decide(m.equals(e.T, e.V, target.V)) {
					return TTrue
				}
			}
			un := m.findMethod(e.T, "Unwrap")
			if un == nil || un.Signature.Results().Len() != 1 {
				break
			}
			if _, ok := un.Signature.Results().At(0).Type().Underlying().(*types.Interface); !ok {
				break
			}
			e = m.call(fr, token.NoPos, un, []Value{e.V}).(Iface)
		}
		return BoolT(e.T == nil && target.T == nil)
	})
	reg("errors.As", func(m *Machine, fr *frame, a []Value) Value {
		e := a[0].(Iface)
		tgt := a[1].(Iface)
		ptr, ok := tgt.V.(*Value)
		if !ok || ptr == nil {
			m.rtPanic("errors: target must be a non-nil pointer")
		}
		elemT := deref(tgt.T)
		_, isIface := elemT.Underlying().(*types.Interface)
		for depth := 0; depth < 16 && e.T != nil; depth++ {
			if isIface {
				if types.AssignableTo(e.T, elemT) {
					*ptr = e
					return TTrue
				}
			} else if types.Identical(e.T, elemT) {
				*ptr = e.V
				return TTrue
			}
			un := m.findMethod(e.T, "Unwrap")
			if un == nil || un.Signature.Results().Len() != 1 {
				break
			}
			if _, ok := un.Signature.Results().At(0).Type().Underlying().(*types.Interface); !ok {
				break
			}
			e = m.call(fr, token.NoPos, un, []Value{e.V}).(Iface)
		}
		return TFalse
	})
	reg("errors.Unwrap", func(m *Machine, fr *frame, a []Value) Value {
		e := a[0].(Iface)
		if e.T == nil {
			return Iface{}
		}
		un := m.findMethod(e.T, "Unwrap")
		if un == nil || un.Signature.Results().Len() != 1 {
			return Iface{}
		}
		if _, ok := un.Signature.Results().At(0).Type().Underlying().(*types.Interface); !ok {
			return Iface{}
		}
		return m.call(fr, token.NoPos, un, []Value{e.V})
	})

	// ---- fmt ----
	reg("fmt.Sprintf", func(m *Machine, fr *frame, a []Value) Value {
		return m.sprintf(fr, a[0].(Str), a[1].([]Value))
	})
	reg("fmt.Errorf", func(m *Machine, fr *frame, a []Value) Value {
		s := m.sprintf(fr, a[0].(Str), a[1].([]Value))
		// %w wrapping: keep first wrapped error for Unwrap via a side note
		return mkErr(m, s)
	})
	reg("fmt.Sprint", func(m *Machine, fr *frame, a []Value) Value {
		var out Str
		for _, v := range a[0].([]Value) {
			out = StrConcat(out, m.fmtValue(fr, 'v', v.(Iface), ""))
		}
		return out
	})
	reg("fmt.Sprintln", func(m *Machine, fr *frame, a []Value) Value {
		var out Str
		for i, v := range a[0].([]Value) {
			if i > 0 {
				out = StrConcat(out, CStr(" "))
			}
			out = StrConcat(out, m.fmtValue(fr, 'v', v.(Iface), ""))
		}
		return StrConcat(out, CStr("\n"))
	})

	fprint := func(kind string) intrinsic {
		return func(m *Machine, fr *frame, a []Value) Value {
			w := a[0].(Iface)
			var out Str
			switch kind {
			case "f":
				out = m.sprintf(fr, a[1].(Str), a[2].([]Value))
			default:
				for i, v := range a[1].([]Value) {
					if i > 0 && kind == "ln" {
						out = StrConcat(out, CStr(" "))
					}
					out = StrConcat(out, m.fmtValue(fr, 'v', v.(Iface), ""))
				}
				if kind == "ln" {
					out = StrConcat(out, CStr("\n"))
				}
			}
			if w.T == nil {
				m.rtPanic("invalid memory address or nil pointer dereference (nil io.Writer)")
			}
			wr := m.findMethod(w.T, "Write")
			return m.call(fr, token.NoPos, wr, []Value{w.V, sliceOfStr(out)})
		}
	}
	reg("fmt.Fprintf", fprint("f"))
	reg("fmt.Fprintln", fprint("ln"))
	reg("fmt.Fprint", fprint(""))

	// ---- sort ----
	reg("sort.Slice", func(m *Machine, fr *frame, a []Value) Value {
		m.sortSlice(fr, a[0].(Iface).V.([]Value), a[1], false)
		return nil
	})
	reg("sort.SliceStable", func(m *Machine, fr *frame, a []Value) Value {
		m.sortSlice(fr, a[0].(Iface).V.([]Value), a[1], true)
		return nil
	})
}

func termsOf(xs []Value) []*Term {
	ts := make([]*Term, len(xs))
	for i, v := range xs {
		ts[i] = v.(*Term)
	}
	return ts
}

func indexByte(bs []*Term, c *Term) *Term {
	res := BV(64, ^uint64(0))
	for i := len(bs) - 1; i >= 0; i-- {
		res = Ite(Eq(bs[i], c), BV(64, uint64(i)), res)
	}
	return res
}

func lastIndexByte(bs []*Term, c *Term) *Term {
	res := BV(64, ^uint64(0))
	for i := 0; i < len(bs); i++ {
		res = Ite(Eq(bs[i], c), BV(64, uint64(i)), res)
	}
	return res
}

func countByte(bs []*Term, c *Term) *Term {
	res := BV(64, 0)
	for _, b := range bs {
		res = BVBin(OpBVAdd, res, Ite(Eq(b, c), BV(64, 1), BV(64, 0)))
	}
	return res
}

func (m *Machine) indexString(s, sep Str) *Term {
	if cs, ok := s.Concrete(); ok {
		if csep, ok := sep.Concrete(); ok {
			return BV(64, uint64(int64(strings.Index(cs, csep))))
		}
	}
	n, k := s.Len(), sep.Len()
	res := BV(64, ^uint64(0))
	if k == 0 {
		return BV(64, 0)
	}
	for i := n - k; i >= 0; i-- {
		res = Ite(StrEq(s.Slice(i, i+k), sep), BV(64, uint64(i)), res)
	}
	return res
}

// sortSlice: insertion sort driven by the target's less closure (comparisons may fork).
func (m *Machine) sortSlice(fr *frame, xs []Value, less Value, stable bool) {
	n := len(xs)
	for i := 1; i < n; i++ {
		for j := i; j > 0; j-- {
			r := m.call(fr, token.NoPos, less, []Value{BV(64, uint64(j)), BV(64, uint64(j-1))}).(*Term)
			if !m.decide(r) {
				break
			}
			xs[j], xs[j-1] = xs[j-1], xs[j]
		}
	}
}

// ---- fmt model ----

func (m *Machine) sprintf(fr *frame, format Str, args []Value) Str {
	f, ok := format.Concrete()
	if !ok {
		m.unsupported("fmt with symbolic format string")
	}
	var out Str
	argi := 0
	usedIndex := false
	i := 0
	for i < len(f) {
		j := strings.IndexByte(f[i:], '%')
		if j < 0 {
			out = StrConcat(out, CStr(f[i:]))
			break
		}
		out = StrConcat(out, CStr(f[i:i+j]))
		i += j + 1
		if i >= len(f) {
			out = StrConcat(out, CStr("%!(NOVERB)"))
			break
		}
		// flags/width/precision, with an optional explicit argument index %[n]verb
		start := i
		for i < len(f) && strings.IndexByte("+-# 0123456789.*", f[i]) >= 0 {
			i++
		}
		spec := f[start:i]
		if i < len(f) && f[i] == '[' {
			k := strings.IndexByte(f[i:], ']')
			n, err := strconv.Atoi(f[i+1 : i+max(k, 1)])
			if k < 0 || err != nil || n < 1 {
				m.unsupported("fmt: malformed argument index in %q", f)
			}
			argi = n - 1
			i += k + 1
			usedIndex = true
		}
		if i >= len(f) {
			break
		}
		verb := f[i]
		i++
		if verb == '%' {
			out = StrConcat(out, CStr("%"))
			continue
		}
		if argi >= len(args) {
			out = StrConcat(out, CStr("%!"+string(verb)+"(MISSING)"))
			continue
		}
		arg := args[argi].(Iface)
		argi++
		out = StrConcat(out, m.fmtValue(fr, verb, arg, spec))
	}
	if argi < len(args) && !usedIndex {
		out = StrConcat(out, CStr("%!(EXTRA )"))
	}
	return out
}

func (m *Machine) nativeScalar(v Iface) (any, bool) {
	switch x := v.V.(type) {
	case *Term:
		if !x.IsConst() {
			return nil, false
		}
		b := basicOf(v.T)
		if b == nil {
			return nil, false
		}
		switch b.Kind() {
		case types.Bool:
			return x.C == 1, true
		case types.Int:
			return int(x.S()), true
		case types.Int8:
			return int8(x.S()), true
		case types.Int16:
			return int16(x.S()), true
		case types.Int32:
			return int32(x.S()), true
		case types.Int64:
			return x.S(), true
		case types.Uint:
			return uint(x.C), true
		case types.Uint8:
			return uint8(x.C), true
		case types.Uint16:
			return uint16(x.C), true
		case types.Uint32:
			return uint32(x.C), true
		case types.Uint64:
			return x.C, true
		case types.Uintptr:
			return uintptr(x.C), true
		case types.Float32:
			return float32(x.Float()), true
		case types.Float64:
			return x.Float(), true
		}
	case Str:
		if s, ok := x.Concrete(); ok {
			return s, true
		}
	}
	return nil, false
}

func (m *Machine) fmtValue(fr *frame, verb byte, v Iface, spec string) Str {
	if v.T == nil {
		if verb == 'v' || verb == 's' {
			return CStr("<nil>")
		}
		return CStr("%!" + string(verb) + "(<nil>)")
	}
	// error / Stringer
	if verb == 'v' || verb == 's' || verb == 'q' || verb == 'w' {
		for _, mn := range []string{"Error", "String"} {
			if fn := m.findMethod(v.T, mn); fn != nil && fn.Signature.Params().Len() == 0 && fn.Signature.Results().Len() == 1 {
				if b := basicOf(fn.Signature.Results().At(0).Type()); b != nil && b.Kind() == types.String {
					if p, ok := v.V.(*Value); ok && p == nil {
						return CStr("<nil>")
					}
					s := m.call(fr, token.NoPos, fn, []Value{v.V}).(Str)
					if verb == 'q' {
						return m.quoteStr(s)
					}
					return s
				}
			}
		}
	}
	if nv, ok := m.nativeScalar(v); ok {
		return CStr(fmt.Sprintf("%"+spec+string(verb), nv))
	}
	switch x := v.V.(type) {
	case Str:
		switch verb {
		case 's', 'v':
			if spec == "" {
				return x
			}
		case 'q':
			return m.quoteStr(x)
		case 'x':
			var out []*Term
			for _, b := range x.Bytes() {
				out = append(out, hexDigit(Extract(b, 7, 4)), hexDigit(Extract(b, 3, 0)))
			}
			return StrFromTerms(out)
		}
	case *Term:
		// symbolic integer: decimal digits via division (bounded width)
		if x.Sort.K == KBV && (verb == 'd' || verb == 'v') && spec == "" {
			return m.symItoa(x, isSigned(v.T))
		}
	case []Value:
		if b, ok := v.T.Underlying().(*types.Slice); ok {
			if eb := basicOf(b.Elem()); eb != nil && eb.Kind() == types.Uint8 {
				s := strOfSlice(x)
				switch verb {
				case 's':
					return s
				case 'q':
					return m.quoteStr(s)
				case 'x':
					var out []*Term
					for _, bt := range s.Bytes() {
						out = append(out, hexDigit(Extract(bt, 7, 4)), hexDigit(Extract(bt, 3, 0)))
					}
					return StrFromTerms(out)
				}
			}
			if verb == 'v' || verb == 's' {
				out := CStr("[")
				for i, e := range x {
					if i > 0 {
						out = StrConcat(out, CStr(" "))
					}
					out = StrConcat(out, m.fmtValue(fr, verb, Iface{T: b.Elem(), V: e}, ""))
				}
				return StrConcat(out, CStr("]"))
			}
		}
	case *Value:
		if verb == 'v' || verb == 'p' {
			return CStr("0xc000000000")
		}
	case Iface:
		return m.fmtValue(fr, verb, x, spec)
	case Struct:
		if verb == 'v' {
			st := v.T.Underlying().(*types.Struct)
			out := CStr("{")
			for i, e := range x {
				if i > 0 {
					out = StrConcat(out, CStr(" "))
				}
				if strings.Contains(spec, "+") {
					out = StrConcat(out, CStr(st.Field(i).Name()+":"))
				}
				out = StrConcat(out, m.fmtValue(fr, verb, ifaceOf(st.Field(i).Type(), e), spec))
			}
			return StrConcat(out, CStr("}"))
		}
	case *Map:
		if verb == 'v' {
			return CStr("map[...]")
		}
	}
	if _, isTerm := v.V.(*Term); isTerm {
		// message formatting of a symbolic scalar with a verb that is not modelled: placeholder text
		// (formatting is not the subject of any property unless the harness inspects the text)
		m.stubs[fmt.Sprintf("fmt placeholder for %%%s%c of a symbolic %s", spec, verb, v.T)]++
		return CStr("<?>")
	}
	m.unsupported("fmt verb %%%s%c on %s (%T symbolic)", spec, verb, v.T, v.V)
	return Str{}
}

func ifaceOf(t types.Type, v Value) Iface {
	if _, ok := t.Underlying().(*types.Interface); ok {
		return v.(Iface)
	}
	return Iface{T: t, V: v}
}

func hexDigit(n *Term) *Term {
	n8 := Zext(n, 8)
	return Ite(BVCmp(OpBVUlt, n8, BV(8, 10)), BVBin(OpBVAdd, n8, BV(8, '0')), BVBin(OpBVAdd, n8, BV(8, 'a'-10)))
}

// quoteStr executes strconv.Quote from SSA on s.
func (m *Machine) quoteStr(s Str) Str {
	pkg := m.P.prog.ImportedPackage("strconv")
	if pkg == nil {
		m.unsupported("strconv not loaded for %%q")
	}
	return m.call(nil, token.NoPos, pkg.Func("Quote"), []Value{s}).(Str)
}

// symItoa renders a symbolic integer in decimal by forking on its number of digits (concretises length only).
func (m *Machine) symItoa(x *Term, signed bool) Str {
	w := x.Sort.W
	neg := TFalse
	ux := x
	var out []*Term
	if signed {
		neg = BVCmp(OpBVSlt, x, BV(w, 0))
		if m.decide(neg) {
			ux = BVNeg(x)
			out = append(out, BV(8, '-'))
		}
	}
	// number of digits: fork
	nd := 1
	pow := uint64(10)
	for nd < 20 {
		if pow == 0 { // overflow of 10^20
			break
		}
		if m.decide(BVCmp(OpBVUlt, ux, BV(w, pow))) {
			break
		}
		nd++
		if pow > math.MaxUint64/10 {
			pow = 0
		} else {
			pow *= 10
		}
		if w < 64 && pow > mask(w) {
			break
		}
	}
	// The digits are fresh variables d_i in [0,9] with sum d_i*10^k == x (Horner form): multiplication by
	// constants instead of nd divisions by 10, and parse(format(x)) == x becomes (almost) syntactic.
	digits := make([]*Term, nd)
	var known uint64
	haveVal := false
	if v, ok := m.path.evalUnder(ux); ok {
		known, haveVal = v, true
	}
	acc := BV(w, 0)
	for i := 0; i < nd; i++ {
		d := m.path.NewAux("dg", SBV(8))
		if haveVal {
			p := uint64(1)
			for k := 0; k < nd-1-i; k++ {
				p *= 10
			}
			m.path.model[d.Name] = (known / p) % 10
		}
		m.path.assert(BVCmp(OpBVUle, d, BV(8, 9)))
		digits[i] = BVBin(OpBVAdd, d, BV(8, '0'))
		acc = BVBin(OpBVAdd, BVBin(OpBVMul, acc, BV(w, 10)), Zext(d, w))
	}
	m.path.assert(Eq(acc, ux))
	out = append(out, digits...)
	return StrFromTerms(out)
}

var _ = strconv.Itoa
var _ = unsafe.Pointer(nil)
