package main

import (
	"encoding/json"
	"flag"
	"fmt"
	"os"
	"path/filepath"
	"sort"
	"strconv"
	"strings"
	"time"

	"golang.org/x/tools/go/ssa"
)

type KnownFinding struct {
	ID       string `json:"id"`
	Property string `json:"property"`
	Harness  string `json:"harness"`
	Status   string `json:"status"` // known | fixed
	Commit   string `json:"commit,omitempty"`
	What     string `json:"what"`
}

type Meta struct {
	Bounds      map[string]any    `json:"bounds"`
	Assumptions []string          `json:"assumptions"`
	OutOfScope  []string          `json:"out_of_scope"`
	Solver      string            `json:"solver"`
	ExtraPkgs   []string          `json:"extra_pkgs"`
	MaxPaths    map[string]int    `json:"max_paths"`
	TimeoutS    map[string]int    `json:"solver_timeout_s"`
	Only        map[string][]string `json:"only"` // tier -> harness names (default all)
}

func loadKnown() []KnownFinding {
	var doc struct {
		Findings []KnownFinding `json:"findings"`
	}
	data, err := os.ReadFile(filepath.Join(verifDir(), "known_findings.json"))
	if err != nil {
		return nil
	}
	if err := json.Unmarshal(data, &doc); err != nil {
		fmt.Fprintf(logw, "known_findings.json: %v\n", err)
		os.Exit(2)
	}
	return doc.Findings
}

func main() {
	if len(os.Args) < 2 {
		fmt.Println("usage: gosym check <prop> <quick|thorough> | replay <prop> <vector>")
		os.Exit(2)
	}
	switch os.Args[1] {
	case "check":
		fs := flag.NewFlagSet("check", flag.ExitOnError)
		only := fs.String("only", "", "run only harnesses whose name contains this")
		workers := fs.Int("workers", 16, "parallel workers")
		fs.Parse(os.Args[2:])
		if fs.NArg() < 2 {
			fmt.Println("usage: gosym check [-only x] <prop> <tier>")
			os.Exit(2)
		}
		os.Exit(cmdCheck(fs.Arg(0), fs.Arg(1), *only, *workers))
	case "selfcheck":
		os.Exit(cmdSelfcheck())
	case "replay":
		if len(os.Args) < 4 {
			fmt.Println("usage: gosym replay <prop> <vector>")
			os.Exit(2)
		}
		hfs, err := collectHarnessFiles(os.Args[2])
		if err != nil {
			fmt.Println(err)
			os.Exit(2)
		}
		os.Setenv("GOSYM_DEBUG", "1")
		ok, obs, err := nativeReplay(os.Args[2], hfs, os.Args[3])
		fmt.Printf("reproduced=%v observed=%q err=%v\n", ok, obs, err)
		if ok {
			os.Exit(1)
		}
		os.Exit(0)
	default:
		fmt.Println("unknown command")
		os.Exit(2)
	}
}

type violationGroup struct {
	key   string
	paths []*PathResult
}

func cmdCheck(prop, tier, only string, workers int) int {
	defer cleanupReplay()
	t0 := time.Now()
	thorough := tier == "thorough"
	seed := 0
	if s := os.Getenv("VERIF_SEED"); s != "" {
		seed, _ = strconv.Atoi(s)
	}
	hfs, err := collectHarnessFiles(prop)
	if err != nil || len(hfs) == 0 {
		fmt.Printf("BROKEN property=%s no harness files: %v\n", prop, err)
		return 2
	}
	var meta Meta
	if data, err := os.ReadFile(filepath.Join(verifDir(), "harness", prop, "meta.json")); err == nil {
		if err := json.Unmarshal(data, &meta); err != nil {
			fmt.Printf("BROKEN property=%s meta.json: %v\n", prop, err)
			return 2
		}
	}
	P, _, err := loadProgram(hfs, meta.ExtraPkgs)
	if err != nil {
		fmt.Printf("BROKEN property=%s load: %v\n", prop, err)
		return 2
	}
	// harness functions
	type hfn struct {
		fn *ssa.Function
		hf HarnessFile
	}
	var harnesses []hfn
	seenPkg := map[string]bool{}
	for _, hf := range hfs {
		if seenPkg[hf.PkgDir] {
			continue
		}
		seenPkg[hf.PkgDir] = true
		pkg := P.pkgs[modPath+"/"+hf.PkgDir]
		if hf.PkgDir == "." {
			pkg = P.pkgs[modPath]
		}
		if pkg == nil {
			fmt.Printf("BROKEN property=%s package %s not loaded\n", prop, hf.PkgDir)
			return 2
		}
		var names []string
		for name := range pkg.Members {
			if strings.HasPrefix(name, "VH_"+prop+"_") {
				names = append(names, name)
			}
		}
		sort.Strings(names)
		for _, n := range names {
			if fn, ok := pkg.Members[n].(*ssa.Function); ok {
				if only != "" && !strings.Contains(n, only) {
					continue
				}
				if sel, ok := meta.Only[tier]; ok && only == "" {
					found := false
					for _, s := range sel {
						if s == n {
							found = true
						}
					}
					if !found {
						continue
					}
				}
				harnesses = append(harnesses, hfn{fn, hf})
			}
		}
	}
	if len(harnesses) == 0 {
		fmt.Printf("BROKEN property=%s no harness functions found\n", prop)
		return 2
	}
	known := map[string]bool{}
	knownByID := map[string]KnownFinding{}
	for _, k := range loadKnown() {
		if k.Property == prop {
			knownByID[k.ID] = k
			if k.Status == "known" {
				known[k.ID] = true
			}
		}
	}
	solver := "z3-new"
	if meta.Solver != "" {
		solver = meta.Solver
	}
	maxPaths := 20000
	if thorough {
		maxPaths = 200000
	}
	if v, ok := meta.MaxPaths[tier]; ok {
		maxPaths = v
	}
	timeout := 180 * time.Second // generous: a loaded machine must not turn a 1 s query into an "unknown"
	if thorough {
		timeout = 300 * time.Second
	}
	if v, ok := meta.TimeoutS[tier]; ok {
		timeout = time.Duration(v) * time.Second
	}

	exit := 0
	nViol := 0
	replays := 0
	var hrs []*HarnessResult
	var lines []string
	var evSamples []any
	broken := func(format string, a ...any) {
		msg := fmt.Sprintf(format, a...)
		fmt.Printf("BROKEN property=%s %s\n", prop, msg)
		lines = append(lines, "BROKEN "+msg)
		if exit == 0 {
			exit = 2
		}
	}
	for _, h := range harnesses {
		o := ExploreOpts{Workers: workers, MaxPaths: maxPaths, Solver: harnessSolver(h.fn.Name(), solver), Timeout: timeout, Thorough: thorough, Known: known, KnownMode: "exclude"}
		hr := explore(P, h.fn, o)
		hrs = append(hrs, hr)
		fmt.Fprintf(logw, "%s: paths=%d ok=%d assumeF=%d known=%d kinds=%v unknowns=%d wall=%.1fs\n", hr.Name, hr.NPaths, hr.NOK, hr.NAssumeF, hr.NKnown, hr.ByKind, hr.Unknowns, hr.Wall)
		if os.Getenv("GOSYM_PROFILE") != "" {
			type kv struct {
				k string
				v int
			}
			var kvs []kv
			for k, v := range hr.Stubs {
				if strings.Contains(k, " @") {
					kvs = append(kvs, kv{k, v})
				}
			}
			sort.Slice(kvs, func(i, j int) bool { return kvs[i].v > kvs[j].v })
			for i, e := range kvs {
				if i < 25 {
					fmt.Fprintf(logw, "  forks %6d  %s\n", e.v, e.k)
				}
			}
		}
		if hr.Capped {
			broken("%s: path cap %d hit before the decision tree was exhausted", hr.Name, maxPaths)
		}
		if hr.Unknowns > 0 {
			broken("%s: %d solver answers were unknown/timeout at this bound (inconclusive)", hr.Name, hr.Unknowns)
		}
		// vacuity
		nReach := 0
		for k, v := range hr.Reach {
			if !strings.HasPrefix(k, "assert:") && v > 0 {
				nReach++
			}
		}
		if nReach == 0 && hr.NKnown == 0 {
			broken("%s: vacuous (no Reach label on any feasible path)", hr.Name)
		}
		// group non-ok paths
		groups := map[string]*violationGroup{}
		var order []string
		for _, p := range hr.Paths {
			key := string(p.Outcome.Kind) + "|" + p.Outcome.Msg + "|" + p.Outcome.Where
			if p.Outcome.Kind == OutPanic || p.Outcome.Kind == OutCrash {
				key = string(p.Outcome.Kind) + "|" + p.Outcome.Msg
			}
			g, ok := groups[key]
			if !ok {
				g = &violationGroup{key: key}
				groups[key] = g
				order = append(order, key)
			}
			g.paths = append(g.paths, p)
		}
		sort.Strings(order)
		for _, key := range order {
			g := groups[key]
			p0 := g.paths[0]
			if !p0.Outcome.IsViolation() {
				broken("%s: %s: %s (%d paths)", hr.Name, p0.Outcome.Kind, p0.Outcome.Msg, len(g.paths))
				continue
			}
			// choose the path with a model and the fewest inputs
			var best *PathResult
			for _, p := range g.paths {
				if p.ModelRes != "sat" {
					continue
				}
				if best == nil || len(p.Inputs) < len(best.Inputs) || (len(p.Inputs) == len(best.Inputs) && len(p.Trace) < len(best.Trace)) {
					best = p
				}
			}
			if best == nil {
				broken("%s: candidate %s (%s) has no solver model (%s)", hr.Name, p0.Outcome.Kind, p0.Outcome.Msg, p0.ModelRes)
				continue
			}
			vecPath, err := writeReplay(prop, h.hf, hr.Name, best, thorough)
			if err != nil {
				broken("cannot write replay: %v", err)
				continue
			}
			repro, observed, err := nativeReplay(prop, hfs, vecPath)
			replays++
			if err != nil {
				broken("%s: replay failed to run: %v %s", hr.Name, err, observed)
				continue
			}
			if repro {
				nViol++
				exit = 1
				line := fmt.Sprintf("VIOLATION property=%s replay=%s", prop, vecPath)
				fmt.Println(line)
				fmt.Printf("  harness=%s kind=%s detail=%q at=%s native=%q inputs=%s\n", hr.Name, best.Outcome.Kind, best.Outcome.Msg, best.Outcome.Where, observed, sampleString(best))
				lines = append(lines, line)
				evSamples = append(evSamples, map[string]any{"harness": hr.Name, "violation": best.Outcome.Msg, "kind": best.Outcome.Kind, "native": observed, "replay": vecPath})
			} else {
				broken("%s: SPURIOUS counterexample (%s %q) did not reproduce natively (observed %q); replay=%s", hr.Name, best.Outcome.Kind, best.Outcome.Msg, observed, vecPath)
			}
		}
		// translator validation: one explored non-violating path per harness is replayed natively and
		// must end in the same outcome (ok) - the engine and the compiled code agree on that input
		if hr.OKSample != nil {
			vecPath, err := writeReplay(prop, h.hf, hr.Name, hr.OKSample, thorough)
			if err == nil {
				repro, observed, err := nativeReplay(prop, hfs, vecPath)
				replays++
				if err != nil {
					broken("%s: ok-sample replay failed to run: %v", hr.Name, err)
				} else if !repro {
					broken("%s: engine/native DISAGREE on an ok path (engine: ok, native: %q); replay=%s", hr.Name, observed, vecPath)
				} else {
					os.Remove(vecPath)
				}
			}
		}
		// known findings of this harness: demonstrate each still reproduces
		for id, kf := range knownByID {
			if kf.Status != "known" || kf.Harness != hr.Name {
				continue
			}
			o2 := o
			o2.KnownMode = "only:" + id
			o2.StopAtFirstViolation = true
			o2.MaxPaths = maxPaths
			hr2 := explore(P, h.fn, o2)
			var best *PathResult
			for _, p := range hr2.Paths {
				inRegion := false
				for _, k := range p.Known {
					if k == id {
						inRegion = true
					}
				}
				if p.Outcome.IsViolation() && p.ModelRes == "sat" && inRegion {
					if best == nil || len(p.Inputs) < len(best.Inputs) {
						best = p
					}
				}
			}
			if best == nil {
				fmt.Printf("NOTE property=%s known finding %s no longer produces a counterexample inside its region\n", prop, id)
				continue
			}
			vecPath, _ := writeReplay(prop, h.hf, hr.Name, best, thorough)
			repro, observed, err := nativeReplay(prop, hfs, vecPath)
			replays++
			if err != nil || !repro {
				broken("%s: known finding %s: counterexample did not reproduce natively (observed %q, err %v)", hr.Name, id, observed, err)
				continue
			}
			line := fmt.Sprintf("KNOWN-FINDING: property=%s %s [%s; harness=%s kind=%s native=%q replay=%s]", prop, kf.What, id, hr.Name, best.Outcome.Kind, observed, vecPath)
			fmt.Println(line)
			lines = append(lines, line)
			evSamples = append(evSamples, map[string]any{"harness": hr.Name, "known_finding": id, "kind": best.Outcome.Kind, "native": observed, "inputs": sampleString(best)})
		}
	}

	// evidence
	writeEvidence(prop, tier, seed, meta, hrs, evSamples, lines, nViol, replays, time.Since(t0).Seconds(), exit)
	if exit == 0 {
		fmt.Printf("OK property=%s tier=%s harnesses=%d wall=%.1fs\n", prop, tier, len(hrs), time.Since(t0).Seconds())
	}
	return exit
}

// harnessSolver: harnesses whose name ends in _arith use cvc5 with int-blasting.
func harnessSolver(name, def string) string {
	if v := os.Getenv("GOSYM_SOLVER"); v != "" { // experiments only
		return v
	}
	if strings.Contains(name, "_arith") {
		return "portfolio"
	}
	if strings.Contains(name, "_cvc5") {
		return "cvc5"
	}
	return def
}

func writeEvidence(prop, tier string, seed int, meta Meta, hrs []*HarnessResult, evSamples []any, lines []string, nViol, replays int, wall float64, exit int) {
	states, transitions, sym := 0, 0, 0
	funcs := map[string]int{}
	stubs := map[string]int{}
	reach := map[string]int{}
	var hsum []any
	exhaustive := true
	var samples []any
	samples = append(samples, evSamples...)
	for _, hr := range hrs {
		states += hr.NPaths
		sym += hr.SymPaths
		for f, n := range hr.Funcs {
			funcs[f] += n
		}
		for f, n := range hr.Stubs {
			stubs[f] += n
		}
		for k, v := range hr.Reach {
			reach[hr.Name+":"+k] = v
		}
		if os.Getenv("GOSYM_PROFILE") != "" {
			type kv struct {
				k string
				v int
			}
			var kvs []kv
			for k, v := range hr.Stubs {
				if strings.Contains(k, " @") {
					kvs = append(kvs, kv{k, v})
				}
			}
			sort.Slice(kvs, func(i, j int) bool { return kvs[i].v > kvs[j].v })
			for i, e := range kvs {
				if i < 25 {
					fmt.Fprintf(logw, "  forks %6d  %s\n", e.v, e.k)
				}
			}
		}
		if hr.Capped {
			exhaustive = false
		}
		for i, s := range hr.Samples {
			if i < 2 {
				samples = append(samples, map[string]any{"harness": hr.Name, "path": s})
			}
		}
		hsum = append(hsum, map[string]any{"harness": hr.Name, "paths": hr.NPaths, "ok": hr.NOK, "assume_false": hr.NAssumeF, "known_region": hr.NKnown,
			"by_outcome": hr.ByKind, "max_decisions": hr.MaxTrace, "wall_s": hr.Wall, "solver_unknown": hr.Unknowns})
	}
	if len(samples) == 0 {
		samples = append(samples, "no feasible path produced inputs")
	}
	type fe struct {
		Name string `json:"fn"`
		N    int    `json:"instructions_executed"`
	}
	var fl []fe
	for f, n := range funcs {
		if strings.Contains(f, "qryn") && !strings.Contains(f, "zzverif") {
			fl = append(fl, fe{f, n})
		}
	}
	sort.Slice(fl, func(i, j int) bool { return fl[i].N > fl[j].N })
	nLib := len(funcs) - len(fl)
	if len(fl) > 60 {
		fl = fl[:60]
	}
	transitions = int(gStats.Queries)
	if transitions == 0 {
		transitions = 1
	}
	if states == 0 {
		states = 1
	}
	ev := map[string]any{
		"property_id": prop,
		"tier":        tier,
		"seed":        seed,
		"level":       "model_checking",
		"wall_s":      wall,
		"violations":  nViol,
		"assumptions": append(append([]string{}, meta.Assumptions...), "out of scope: "+strings.Join(meta.OutOfScope, "; ")),
		"coverage": map[string]any{
			"states":                        states,
			"transitions":                   transitions,
			"traces_validated_against_impl": replays,
			"samples":                       samples,
			"evaluations":                   states,
			"distinct_nontrivial":           sym,
			"rule":                          "each evaluation is one feasible path of a harness (a distinct decision prefix over symbolic branches, lengths, choices); non-trivial = the path took at least one decision on a symbolic condition; states = paths, transitions = solver queries discharged",
			"exhaustive":                    exhaustive,
			"technique":                     "bounded symbolic execution of go/ssa of the real functions + SMT (QF_BV/FP/UF) feasibility and obligation queries; counterexamples replayed natively",
			"functions_encoded":             fl,
			"library_functions_encoded":     nLib,
			"bounds":                        meta.Bounds,
			"queries":                       map[string]any{"portfolio_fallbacks": gStats.Fallbacks, "total": gStats.Queries, "sat": gStats.Sat, "unsat": gStats.Unsat, "unknown": gStats.Unknown},
			"solver_s":                      map[string]any{"z3": float64(gStats.NanosZ3) / 1e9, "cvc5": float64(gStats.NanosCVC) / 1e9},
			"stubs_hit":                     stubs,
			"reach_labels":                  reach,
			"harnesses":                     hsum,
			"report":                        lines,
			"exit":                          exit,
		},
	}
	data, _ := json.MarshalIndent(ev, "", " ")
	evDir := filepath.Join(verifDir(), "evidence")
	if os.Getenv("VERIF_REPO") != "" {
		evDir = filepath.Join(os.TempDir(), "verif-scratch-evidence")
	}
	os.MkdirAll(evDir, 0o755)
	os.WriteFile(filepath.Join(evDir, prop+".json"), data, 0o644)
}
